(* Proofs about Model/Hist.v: the gravity bound, its lifting to arbitrary update sequences, the
   weight bands of RankQuiet / RankNoisy and the layout of the bands. Everything is proved from
   the GENERATED constants (Gen/HeurConsts.v): a changed constant re-checks these lemmas. *)
From Coq Require Import ZArith Lia Bool List FMapPositive.
Import ListNotations.
From Chess3 Require Import Base.Word Gen.HeurConsts Model.Hist.
Open Scope Z_scope.
Ltac Zify.zify_post_hook ::= Z.to_euclidean_division_equations.

(* ------------------------------------------------------------------------------------------- *)
(* layout of the constants                                                                      *)

(* what the proofs below need from the generated constants; each conjunct is a design intention of
   heur/heur.go's package comment or of Go's int16 *)
Definition layout_ok : Prop :=
  0 < MaxHistory /\ 2 * MaxHistory <= 32767              (* cell + (bonus - gravity) is computed in int16 *)
  /\ 3 * MaxHistory < Captures                             (* quiets below the good captures (init() assertion, strict) *)
  /\ 0 < CaptureRange
  /\ Captures + CaptureRange <= HashMove                   (* good captures below the hash move *)
  /\ HashMove <= 32767                                     (* +-HashMove are Scores *)
  /\ 294 < CaptureRange.                                   (* the Promo/MVV/LVA score fits into a capture band *)

Lemma layout_holds : layout_ok.
Proof. unfold layout_ok, MaxHistory, Captures, CaptureRange, HashMove. lia. Qed.

(* the bands, as propositions *)
Definition in_history_band (h : Z) : Prop := - MaxHistory <= h <= MaxHistory.
Definition in_quiet_band (w : Z) : Prop := - 3 * MaxHistory <= w <= 3 * MaxHistory.
Definition in_good_capture_band (w : Z) : Prop := Captures <= w < Captures + CaptureRange.
Definition in_bad_capture_band (w : Z) : Prop := - Captures - CaptureRange <= w < - Captures.
Definition in_noisy_band (w : Z) : Prop := in_good_capture_band w \/ in_bad_capture_band w.

(* the sentinel given to the hash move's second copy, and the yieldRest threshold *)
Definition sentinel : Z := - HashMove.
Definition rest_threshold : Z := - HashMove + 1.

(* no ranked weight is the sentinel, is at or below the yieldRest threshold, or reaches HashMove;
   good captures are positive (yielded by yieldGoodNoisy), bad ones negative; the three bands are
   pairwise disjoint and ordered bad < quiet < good *)
Lemma noisy_band_layout w : in_noisy_band w ->
  w <> sentinel /\ rest_threshold < w /\ w < HashMove /\ - 32768 <= w <= 32767.
Proof.
  unfold in_noisy_band, in_good_capture_band, in_bad_capture_band, sentinel, rest_threshold,
    MaxHistory, Captures, CaptureRange, HashMove. lia.
Qed.

Lemma quiet_band_layout w : in_quiet_band w ->
  w <> sentinel /\ rest_threshold < w /\ w < HashMove /\ - 32768 <= w <= 32767
  /\ ~ in_good_capture_band w /\ ~ in_bad_capture_band w.
Proof.
  unfold in_quiet_band, in_good_capture_band, in_bad_capture_band, sentinel, rest_threshold,
    MaxHistory, Captures, CaptureRange, HashMove. lia.
Qed.

Lemma band_order wb wq wg : in_bad_capture_band wb -> in_quiet_band wq -> in_good_capture_band wg ->
  rest_threshold < wb /\ wb < wq /\ wq < wg /\ wb < 0 /\ 0 < wg /\ wg < HashMove.
Proof.
  unfold in_quiet_band, in_good_capture_band, in_bad_capture_band, rest_threshold,
    MaxHistory, Captures, CaptureRange, HashMove. lia.
Qed.

(* ------------------------------------------------------------------------------------------- *)
(* the gravity update on one cell                                                               *)

(* the update without any int16 conversion *)
Definition hist_add_ideal (h bonus : Z) : Z :=
  let cb := clamp bonus (- MaxHistory) MaxHistory in
  h + (cb - Z.quot (h * Z.abs cb) MaxHistory).

Lemma gravity_ideal h bonus : in_history_band h ->
  in_history_band (hist_add_ideal h bonus)
  /\ - MaxHistory <= Z.quot (h * Z.abs (clamp bonus (- MaxHistory) MaxHistory)) MaxHistory <= MaxHistory.
Proof.
  unfold in_history_band, hist_add_ideal, clamp, MaxHistory. intros Hh.
  set (cb := Z.min 1024 (Z.max bonus (- (1024)))).
  assert (Hcb : -1024 <= cb <= 1024) by (unfold cb; lia).
  clearbody cb.
  destruct (Z_le_gt_dec 0 cb) as [P|P]; [rewrite Z.abs_eq by lia | rewrite Z.abs_neq by lia].
  - pose proof (Z.quot_rem (h * cb) 1024 ltac:(lia)) as Q.
    pose proof (Z.rem_bound_abs (h * cb) 1024 ltac:(lia)) as R.
    nia.
  - pose proof (Z.quot_rem (h * - cb) 1024 ltac:(lia)) as Q.
    pose proof (Z.rem_bound_abs (h * - cb) 1024 ltac:(lia)) as R.
    nia.
Qed.

(* none of the int16 conversions of the Go expression wraps *)
Lemma hist_add_no_wrap h bonus : in_history_band h -> hist_add h bonus = hist_add_ideal h bonus.
Proof.
  intros Hh. destruct (gravity_ideal h bonus Hh) as [Hband Hq].
  unfold hist_add, hist_add_ideal in *. cbv zeta in *.
  set (cb := clamp bonus (- MaxHistory) MaxHistory) in *.
  assert (Hcb : - MaxHistory <= cb <= MaxHistory) by (unfold cb, clamp, MaxHistory; lia).
  assert (Habs : abs16 cb = Z.abs cb).
  { unfold abs16. destruct (cb <? 0) eqn:E.
    - apply Z.ltb_lt in E. rewrite wrap16_id by (unfold MaxHistory in *; lia). lia.
    - apply Z.ltb_ge in E. lia. }
  rewrite Habs.
  set (q := Z.quot (h * Z.abs cb) MaxHistory) in *.
  unfold in_history_band in *.
  rewrite (wrap16_id q) by (unfold MaxHistory in *; lia).
  rewrite (wrap16_id (cb - q)) by (unfold MaxHistory in *; lia).
  rewrite wrap16_id by (unfold MaxHistory in *; lia).
  reflexivity.
Qed.

(* C16_gravity, one step: for every stored value in the band and EVERY bonus (in particular every
   int16) the new value is in the band, and the int16 store holds exactly the ideal value *)
Lemma gravity h bonus : in_history_band h ->
  in_history_band (hist_add h bonus) /\ hist_add h bonus = hist_add_ideal h bonus.
Proof.
  intros Hh. split; [|apply hist_add_no_wrap; exact Hh].
  rewrite hist_add_no_wrap by exact Hh. apply gravity_ideal. exact Hh.
Qed.

(* the band is tight: both ends are reached, so the bound cannot be improved and saturated cells
   stay saturated under further same-sign maximal updates *)
Lemma gravity_saturates : hist_add MaxHistory MaxHistory = MaxHistory /\ hist_add (- MaxHistory) (- MaxHistory) = - MaxHistory
  /\ hist_add 0 32767 = MaxHistory /\ hist_add 0 (-32768) = - MaxHistory.
Proof. repeat split; vm_compute; reflexivity. Qed.

(* ------------------------------------------------------------------------------------------- *)
(* tables                                                                                        *)

Definition table_ok (t : table) : Prop := forall k, in_history_band (tget t k).

Lemma zero_in_band : in_history_band 0.
Proof. unfold in_history_band, MaxHistory. lia. Qed.

Lemma table_ok_empty : table_ok tempty.
Proof. intros k. unfold tget, tempty. rewrite PositiveMap.gempty. apply zero_in_band. Qed.

Lemma tget_tset t k v k' : tget (tset t k v) k' = v \/ tget (tset t k v) k' = tget t k'.
Proof.
  unfold tget, tset. destruct (Pos.eq_dec (tkey k') (tkey k)) as [E|E].
  - left. rewrite E, PositiveMap.gss. reflexivity.
  - right. rewrite PositiveMap.gso by exact E. reflexivity.
Qed.

Lemma table_ok_tadd t k bonus : table_ok t -> table_ok (tadd t k bonus).
Proof.
  intros Ht k'. unfold tadd. destruct (tget_tset t k (hist_add (tget t k) bonus) k') as [E|E]; rewrite E.
  - apply gravity. apply Ht.
  - apply Ht.
Qed.

(* for distinct in-range indices the cells are distinct (the flattening is the array layout) *)
Lemma tget_tset_same t k v : tget (tset t k v) k = v.
Proof. unfold tget, tset. rewrite PositiveMap.gss. reflexivity. Qed.
Lemma tget_tset_other t k v k' : 0 <= k -> 0 <= k' -> k <> k' -> tget (tset t k v) k' = tget t k'.
Proof.
  intros Hk Hk' Hne. unfold tget, tset. rewrite PositiveMap.gso; [reflexivity|].
  unfold tkey. intros E. apply Hne. apply (f_equal Zpos) in E. rewrite !Z2Pos.id in E by lia. lia.
Qed.

Definition ranker_ok (r : ranker) : Prop :=
  table_ok (r_hist r) /\ table_ok (r_capt r) /\ table_ok (r_cont0 r) /\ table_ok (r_cont1 r).

Lemma ranker_ok_new : ranker_ok ranker_new.
Proof. unfold ranker_ok, ranker_new; cbn [r_hist r_capt r_cont0 r_cont1]. repeat (apply conj); apply table_ok_empty. Qed.

Lemma history_add_ok r stm from to bonus r' : ranker_ok r -> history_add r stm from to bonus = Some r' -> ranker_ok r'.
Proof.
  intros (H1 & H2 & H3 & H4) E. unfold history_add in E. destruct (hist_ix stm from to); [|discriminate].
  injection E as <-. unfold ranker_ok; cbn [r_hist r_capt r_cont0 r_cont1].
  repeat (apply conj); try assumption; apply table_ok_tadd; assumption.
Qed.
Lemma capthist_add_ok r a b c bonus r' : ranker_ok r -> capthist_add r a b c bonus = Some r' -> ranker_ok r'.
Proof.
  intros (H1 & H2 & H3 & H4) E. unfold capthist_add in E. destruct (capt_ix a b c); [|discriminate].
  injection E as <-. unfold ranker_ok; cbn [r_hist r_capt r_cont0 r_cont1].
  repeat (apply conj); try assumption; apply table_ok_tadd; assumption.
Qed.
Lemma cont0_add_ok r a b c d e bonus r' : ranker_ok r -> cont0_add r a b c d e bonus = Some r' -> ranker_ok r'.
Proof.
  intros (H1 & H2 & H3 & H4) E. unfold cont0_add in E. destruct (cont_ix a b c d e); [|discriminate].
  injection E as <-. unfold ranker_ok; cbn [r_hist r_capt r_cont0 r_cont1].
  repeat (apply conj); try assumption; apply table_ok_tadd; assumption.
Qed.
Lemma cont1_add_ok r a b c d e bonus r' : ranker_ok r -> cont1_add r a b c d e bonus = Some r' -> ranker_ok r'.
Proof.
  intros (H1 & H2 & H3 & H4) E. unfold cont1_add in E. destruct (cont_ix a b c d e); [|discriminate].
  injection E as <-. unfold ranker_ok; cbn [r_hist r_capt r_cont0 r_cont1].
  repeat (apply conj); try assumption; apply table_ok_tadd; assumption.
Qed.

Lemma fh_update_ok d stm top0 top1 r m last r' :
  ranker_ok r -> fh_update d stm top0 top1 r m last = Some r' -> ranker_ok r'.
Proof.
  intros Hr E. unfold fh_update in E.
  destruct (negb (fm_captured m =? NoPiece)).
  { eapply capthist_add_ok; eassumption. }
  destruct ((move_promo (fm_move m) =? NoPiece) && (fm_captured m =? NoPiece)).
  2:{ injection E as <-. exact Hr. }
  destruct (history_add r stm (move_from (fm_move m)) (move_to (fm_move m)) (fh_value d m last)) as [r1|] eqn:E1; [|discriminate].
  pose proof (history_add_ok _ _ _ _ _ _ Hr E1) as Hr1.
  assert (Hstep2 : forall r2,
     match top0 with
     | Some (p, t) => cont0_add r1 stm p t (fm_moved m) (move_to (fm_move m)) (fh_value d m last)
     | None => Some r1 end = Some r2 -> ranker_ok r2).
  { intros r2 E2. destruct top0 as [[p t]|].
    - eapply cont0_add_ok; eassumption.
    - injection E2 as <-. exact Hr1. }
  destruct (match top0 with
     | Some (p, t) => cont0_add r1 stm p t (fm_moved m) (move_to (fm_move m)) (fh_value d m last)
     | None => Some r1 end) as [r2|]; [|discriminate].
  pose proof (Hstep2 r2 eq_refl) as Hr2.
  destruct top1 as [[p t]|].
  - eapply cont1_add_ok; eassumption.
  - injection E as <-. exact Hr2.
Qed.

Lemma fail_high_ok d stm top0 top1 moves : forall r r',
  ranker_ok r -> fail_high d stm top0 top1 moves r = Some r' -> ranker_ok r'.
Proof.
  induction moves as [|m rest IH]; intros r r' Hr E; cbn [fail_high] in E.
  - injection E as <-. exact Hr.
  - destruct (fh_update d stm top0 top1 r m (match rest with [] => true | _ :: _ => false end)) as [r1|] eqn:E1; [|discriminate].
    eapply IH; [|exact E]. eapply fh_update_ok; eassumption.
Qed.

(* every state the move-ordering histories can reach: from the cleared ranker by ANY sequence of
   FailHigh calls (any depth, any side, any stack, any move list with any weights and any board
   contents) and of direct Add calls (any indices, any bonus) that do not panic *)
Inductive reachable : ranker -> Prop :=
| reach_new : reachable ranker_new
| reach_fail_high r d stm top0 top1 moves r' :
    reachable r -> fail_high d stm top0 top1 moves r = Some r' -> reachable r'
| reach_history_add r stm from to bonus r' :
    reachable r -> history_add r stm from to bonus = Some r' -> reachable r'
| reach_capthist_add r moved captured sq bonus r' :
    reachable r -> capthist_add r moved captured sq bonus = Some r' -> reachable r'
| reach_cont0_add r stm ph th p to bonus r' :
    reachable r -> cont0_add r stm ph th p to bonus = Some r' -> reachable r'
| reach_cont1_add r stm ph th p to bonus r' :
    reachable r -> cont1_add r stm ph th p to bonus = Some r' -> reachable r'.

Theorem reachable_ok r : reachable r -> ranker_ok r.
Proof.
  induction 1.
  - apply ranker_ok_new.
  - eapply fail_high_ok; eassumption.
  - eapply history_add_ok; eassumption.
  - eapply capthist_add_ok; eassumption.
  - eapply cont0_add_ok; eassumption.
  - eapply cont1_add_ok; eassumption.
Qed.

(* every cell read through a LookUp method is in the band *)
Lemma lookups_in_band r : ranker_ok r ->
  (forall a b c v, history_get r a b c = Some v -> in_history_band v)
  /\ (forall a b c v, capthist_get r a b c = Some v -> in_history_band v)
  /\ (forall a b c d e v, cont0_get r a b c d e = Some v -> in_history_band v)
  /\ (forall a b c d e v, cont1_get r a b c d e = Some v -> in_history_band v).
Proof.
  intros (H1 & H2 & H3 & H4). refine (conj _ (conj _ (conj _ _))); intros.
  - unfold history_get in H. destruct (hist_ix a b c); [|discriminate]. injection H as <-. apply H1.
  - unfold capthist_get in H. destruct (capt_ix a b c); [|discriminate]. injection H as <-. apply H2.
  - unfold cont0_get in H. destruct (cont_ix a b c d e); [|discriminate]. injection H as <-. apply H3.
  - unfold cont1_get in H. destruct (cont_ix a b c d e); [|discriminate]. injection H as <-. apply H4.
Qed.

(* ------------------------------------------------------------------------------------------- *)
(* RankQuiet                                                                                     *)

Lemma rank_quiet_band r stm m moved top0 top1 w : ranker_ok r ->
  rank_quiet r stm m moved top0 top1 = Some w -> in_quiet_band w.
Proof.
  intros Hr E. destruct (lookups_in_band r Hr) as (L1 & _ & L3 & L4).
  unfold rank_quiet in E.
  destruct (history_get r stm (move_from m) (move_to m)) as [s0|] eqn:E0; [|discriminate].
  apply L1 in E0.
  assert (Hs1 : forall s1,
    match top0 with
    | Some (p, t) => match cont0_get r stm p t moved (move_to m) with Some c => Some (wrap16 (s0 + c)) | None => None end
    | None => Some s0 end = Some s1 -> - 2 * MaxHistory <= s1 <= 2 * MaxHistory).
  { intros s1 E1. destruct top0 as [[p t]|].
    - destruct (cont0_get r stm p t moved (move_to m)) as [c|] eqn:Ec; [|discriminate].
      apply L3 in Ec. injection E1 as <-. unfold in_history_band, MaxHistory in *.
      rewrite wrap16_id by lia. lia.
    - injection E1 as <-. unfold in_history_band, MaxHistory in *. lia. }
  destruct (match top0 with
    | Some (p, t) => match cont0_get r stm p t moved (move_to m) with Some c => Some (wrap16 (s0 + c)) | None => None end
    | None => Some s0 end) as [s1|]; [|discriminate].
  specialize (Hs1 s1 eq_refl).
  destruct top1 as [[p t]|].
  - destruct (cont1_get r stm p t moved (move_to m)) as [c|] eqn:Ec; [|discriminate].
    apply L4 in Ec. injection E as <-. unfold in_quiet_band, in_history_band, MaxHistory in *.
    rewrite wrap16_id by lia. lia.
  - injection E as <-. unfold in_quiet_band, MaxHistory in *. lia.
Qed.

(* ------------------------------------------------------------------------------------------- *)
(* RankNoisy                                                                                     *)

(* remove the int16 conversions innermost first, each justified by lia *)
Ltac unwrap16 :=
  repeat match goal with
  | |- context [wrap16 ?x] =>
      lazymatch x with
      | context [wrap16 _] => fail
      | _ => rewrite (wrap16_id x) by lia
      end
  end.

(* promo is a 3 bit field; attacker and victim are piece codes *)
Lemma mvv_lva_range promo attacker victim :
  0 <= promo <= 7 -> 0 <= attacker <= King -> 0 <= victim <= King ->
  0 <= mvv_lva promo attacker victim <= 294.
Proof.
  intros Hp Ha Hv. unfold mvv_lva, trunc8, NoPiece, Pawn, King in *.
  assert (Hi : (6 - attacker) mod 256 = 6 - attacker) by (apply Z.mod_small; lia).
  rewrite Hi.
  destruct (promo =? 0) eqn:E; [apply Z.eqb_eq in E|apply Z.eqb_neq in E].
  - subst promo. unwrap16. lia.
  - assert (Hq : (promo - 1) mod 256 = promo - 1) by (apply Z.mod_small; lia).
    rewrite Hq. unwrap16. lia.
Qed.

Lemma rank_noisy_band promo attacker victim (see : bool) :
  0 <= promo <= 7 -> 0 <= attacker <= King -> 0 <= victim <= King ->
  (if see then in_good_capture_band else in_bad_capture_band) (rank_noisy promo attacker victim see).
Proof.
  intros Hp Ha Hv. pose proof (mvv_lva_range promo attacker victim Hp Ha Hv) as Hs.
  unfold rank_noisy. set (s := mvv_lva promo attacker victim) in *. clearbody s.
  unfold in_good_capture_band, in_bad_capture_band, Captures, CaptureRange.
  destruct see; unwrap16; lia.
Qed.

(* the move encoding's promo field is 3 bits wide *)
Lemma move_promo_range m : 0 <= move_promo m <= 7.
Proof.
  unfold move_promo, MovePromoBits. rewrite Z.land_ones by lia.
  pose proof (Z.mod_pos_bound (Z.shiftr m MovePromoShift) (2 ^ 3) ltac:(lia)) as H. lia.
Qed.

(* ------------------------------------------------------------------------------------------- *)
(* FailHigh's bonus arithmetic stays inside int16 for every int8 depth (so the values handed to
   the Add methods are the ones the formulas denote; the band does not depend on this)           *)
Lemma fh_bonus_no_wrap d : -128 <= d <= 127 ->
  fh_bonus d = d * HistBonusMul - HistBonusLin /\ wrap16 (d * d) = d * d /\ wrap16 (wrap16 (- d) * d) = - (d * d).
Proof.
  intros Hd. unfold fh_bonus, HistBonusMul, HistBonusLin.
  assert (0 <= d * d <= 16384) by nia.
  repeat split; unwrap16; lia.
Qed.

(* ------------------------------------------------------------------------------------------- *)
(* FailHigh does not panic on inputs the search can produce: side to move 0/1, moved piece a real
   piece, captured piece none or pawn..queen, history stack entries with a real piece and a square.
   So the only None of the model is Go's index-out-of-range panic on malformed input.            *)

Lemma move_to_range m : 0 <= move_to m <= 63.
Proof.
  unfold move_to, MoveToBits. rewrite Z.land_ones by lia.
  pose proof (Z.mod_pos_bound (Z.shiftr m MoveToShift) (2 ^ 6) ltac:(lia)). lia.
Qed.
Lemma move_from_range m : 0 <= move_from m <= 63.
Proof.
  unfold move_from, MoveFromBits. rewrite Z.land_ones by lia.
  pose proof (Z.mod_pos_bound (Z.shiftr m MoveFromShift) (2 ^ 6) ltac:(lia)). lia.
Qed.

Definition fh_move_ok (m : fh_move) : Prop := Pawn <= fm_moved m <= King /\ NoPiece <= fm_captured m <= Queen.
Definition top_ok (t : stack_top) : Prop :=
  match t with Some (p, sq) => Pawn <= p <= King /\ 0 <= sq <= 63 | None => True end.

Lemma in_range_true x lo hi : lo <= x <= hi -> in_range x lo hi = true.
Proof. intros H. unfold in_range. apply andb_true_iff. split; apply Z.leb_le; lia. Qed.

Lemma hist_ix_some stm from to : 0 <= stm <= 1 -> 0 <= from <= 63 -> 0 <= to <= 63 -> exists k, hist_ix stm from to = Some k.
Proof.
  intros H1 H2 H3. unfold hist_ix, Colors, Squares.
  rewrite !in_range_true by lia. eexists. reflexivity.
Qed.
Lemma cont_ix_some stm ph th p to : 0 <= stm <= 1 -> 1 <= ph <= 6 -> 0 <= th <= 63 -> 1 <= p <= 6 -> 0 <= to <= 63 ->
  exists k, cont_ix stm ph th p to = Some k.
Proof.
  intros H1 H2 H3 H4 H5. unfold cont_ix, Colors, Squares.
  rewrite !in_range_true by lia. eexists. reflexivity.
Qed.
Lemma capt_ix_some moved captured sq : 1 <= moved <= 6 -> 1 <= captured <= 5 -> 0 <= sq <= 63 ->
  exists k, capt_ix moved captured sq = Some k.
Proof.
  intros H1 H2 H3. unfold capt_ix, Pawn, Squares.
  rewrite !in_range_true by lia. eexists. reflexivity.
Qed.

Lemma fh_update_total d stm top0 top1 r m last :
  0 <= stm <= 1 -> top_ok top0 -> top_ok top1 -> fh_move_ok m ->
  exists r', fh_update d stm top0 top1 r m last = Some r'.
Proof.
  intros Hstm Ht0 Ht1 [Hmv Hcp]. unfold fh_update, NoPiece, Pawn, King, Queen in *.
  pose proof (move_to_range (fm_move m)) as Hto. pose proof (move_from_range (fm_move m)) as Hfrom.
  destruct (fm_captured m =? 0) eqn:Ec; cbn [negb].
  - destruct (move_promo (fm_move m) =? 0); cbn [andb]; [|eexists; reflexivity].
    unfold history_add. destruct (hist_ix_some stm _ _ Hstm Hfrom Hto) as (k & ->).
    assert (H0 : forall r1, exists r2,
       match top0 with
       | Some (p, t) => cont0_add r1 stm p t (fm_moved m) (move_to (fm_move m)) (fh_value d m last)
       | None => Some r1 end = Some r2).
    { intros r1. destruct top0 as [[p t]|]; [|eexists; reflexivity].
      destruct Ht0 as [Hp Ht]. unfold cont0_add, Pawn, King in *.
      destruct (cont_ix_some stm p t (fm_moved m) _ Hstm Hp Ht Hmv Hto) as (k0 & ->). eexists. reflexivity. }
    match goal with |- context [cont0_add ?R _ _ _ _ _ _] => destruct (H0 R) as (r2 & E2)
                  | |- context [Some ?R] => destruct (H0 R) as (r2 & E2) end.
    rewrite E2.
    destruct top1 as [[p t]|]; [|eexists; reflexivity].
    destruct Ht1 as [Hp Ht]. unfold cont1_add, Pawn, King in *.
    destruct (cont_ix_some stm p t (fm_moved m) _ Hstm Hp Ht Hmv Hto) as (k1 & ->). eexists. reflexivity.
  - apply Z.eqb_neq in Ec. unfold capthist_add.
    destruct (capt_ix_some (fm_moved m) (fm_captured m) _ Hmv ltac:(lia) Hto) as (k & ->). eexists. reflexivity.
Qed.

Lemma fail_high_total d stm top0 top1 moves : forall r,
  0 <= stm <= 1 -> top_ok top0 -> top_ok top1 -> Forall fh_move_ok moves ->
  exists r', fail_high d stm top0 top1 moves r = Some r'.
Proof.
  induction moves as [|m rest IH]; intros r Hstm Ht0 Ht1 Hm; cbn [fail_high]; [eexists; reflexivity|].
  inversion Hm as [|? ? Hm1 Hm2]; subst.
  destruct (fh_update_total d stm top0 top1 r m (match rest with [] => true | _ :: _ => false end) Hstm Ht0 Ht1 Hm1) as (r1 & ->).
  now apply IH.
Qed.
