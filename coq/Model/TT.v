(* Model of transp/transp.go (transposition table), transliterated line by line.
   uint64 words are non-negative Z below 2^64 (and64 = truncation, not64 = ^x), Depth is int8
   (wrap8), Score is int16 (wrap16), Move and partialKey are uint16, Gen/Type/packed are bytes.
   Definitions only; proofs live in Proofs/TT*.v. *)
From Coq Require Import ZArith Bool List.
Import ListNotations.
From Chess3 Require Import Base.Word Gen.TTConsts.
Open Scope Z_scope.

(* ---------------------------------------------------------------------------------------- *)
(* 64-bit word helpers *)

Definition ones64 : Z := 18446744073709551615.
Definition and64 (x : Z) : Z := Z.land x ones64.     (* truncation of a Go uint64 result *)
Definition not64 (x : Z) : Z := Z.lxor x ones64.     (* ^x on uint64 *)

Fixpoint ctzp (p : positive) : Z :=
  match p with xO q => Z.succ (ctzp q) | _ => 0 end.
(* bits.TrailingZeros64 *)
Definition tz64 (x : Z) : Z := match x with Zpos p => ctzp p | _ => 64 end.

(* transp.go:166-169 *)
Definition rep16 : Z := 281479271743489.         (* 0x0001_0001_0001_0001 *)
Definition hi16  : Z := 9223512776490647552.     (* 0x8000_8000_8000_8000 *)
Definition lane_mask : Z := 65535.               (* (1 << partialKeyBits) - 1 *)

(* transp.go:174-183  match64: index of the first 16 bit lane of w equal to key *)
Definition match64 (w key : Z) : option Z :=
  let r := and64 (key * rep16) in
  let x := Z.lxor w r in
  let mask := Z.land (Z.land (and64 (x - rep16)) (not64 x)) hi16 in
  if mask =? 0 then None
  else Some (tz64 mask / 16).

(* ---------------------------------------------------------------------------------------- *)
(* entries and buckets (transp.go:41-80) *)

Record entry := mkEntry { e_move : Z; e_value : Z; e_packed : Z; e_gen : Z }.
Definition zero_entry : entry := mkEntry 0 0 0 0.

(* packed.Depth / packed.Type, transp.go:45-48; Depth(byte >> 2) is the int8 conversion *)
Definition e_depth (e : entry) : Z := wrap8 (Z.shiftr (e_packed e) 2).
Definition e_type (e : entry) : Z := Z.land (e_packed e) 3.

(* entry.Value, transp.go:58-68 *)
Definition entry_value (e : entry) (ply : Z) : Z :=
  if MateHi <? e_value e then wrap16 (e_value e - ply)
  else if e_value e <? MateLo then wrap16 (e_value e + ply)
  else e_value e.

(* quality, transp.go:257-259: plain int arithmetic on a Depth and two bytes *)
Definition quality (curr g d : Z) : Z := d + 2 * (g - curr).

Record bucket := mkBucket { b_keys : Z; b_entries : list entry }.
Definition zero_bucket : bucket := mkBucket 0 (repeat zero_entry (Z.to_nat bucketEntryCnt)).

Definition table := list bucket.

Fixpoint set_nth {A : Type} (n : nat) (x : A) (l : list A) : list A :=
  match l, n with
  | [], _ => []
  | _ :: r, O => x :: r
  | a :: r, S m => a :: set_nth m x r
  end.

(* ---------------------------------------------------------------------------------------- *)
(* sizes: New / Resize / Clear (transp.go:92-152) *)

Definition valid_size (size : Z) : bool :=
  negb ((size <? bucketSize) || negb (Z.rem size bucketSize =? 0)).

(* None = panic of validateSize. The re-slice keeps a prefix, the re-allocation gives zeroed
   memory (the unsafe slice construction itself is modelled, not verified). *)
Definition tt_resize (t : table) (size : Z) : option table :=
  if valid_size size then
    let required := Z.quot size bucketSize in
    if required <=? Z.of_nat (length t) then Some (firstn (Z.to_nat required) t)
    else Some (repeat zero_bucket (Z.to_nat required))
  else None.

Definition tt_new (size : Z) : option table := tt_resize [] size.

Definition tt_clear (t : table) : table := map (fun _ => zero_bucket) t.

(* ---------------------------------------------------------------------------------------- *)
(* bucketIx, LookUp, Insert (transp.go:155-255) *)

(* Lemire: int(uint64(uint32(hash)) * uint64(len) >> 32) *)
Definition bucket_ix (len hash : Z) : Z :=
  Z.shiftr (and64 (Z.land hash 4294967295 * len)) 32.

(* partialKey(hash >> (64 - partialKeyBits)) *)
Definition partial_key (hash : Z) : Z := Z.land (Z.shiftr hash (64 - partialKeyBits)) lane_mask.

Definition tt_bucket (t : table) (hash : Z) : bucket :=
  nth (Z.to_nat (bucket_ix (Z.of_nat (length t)) hash)) t zero_bucket.

Definition lookup (t : table) (hash : Z) : option entry :=
  let b := tt_bucket t hash in
  match match64 (b_keys b) (partial_key hash) with
  | Some ix => Some (nth (Z.to_nat ix) (b_entries b) zero_entry)
  | None => None
  end.

(* outcome of the replacement loop of Insert: early return, or the lane to overwrite together
   with the move to store (the "keep the old move" trick changes sm inside the loop) *)
Inductive scan := ScanReturn | ScanReplace (ix : Z) (sm : Z).

Fixpoint scan_loop (es : list entry) (i bkeys minQ replace hashKey gen d sm typ : Z) : scan :=
  match es with
  | [] => ScanReplace replace sm
  | target :: rest =>
      let entryQ := quality gen (e_gen target) (e_depth target) in
      if Z.land bkeys lane_mask =? hashKey then
        if negb (typ =? Exact) && (wrap8 (d + 2) <? e_depth target) && (e_gen target =? gen)
        then ScanReturn
        else ScanReplace i (if sm =? 0 then e_move target else sm)
      else
        let minQ' := if entryQ <? minQ then entryQ else minQ in
        let replace' := if entryQ <? minQ then i else replace in
        scan_loop rest (i + 1) (Z.shiftr bkeys partialKeyBits) minQ' replace' hashKey gen d sm typ
  end.

(* the two sequential mate adjustments of Insert on int16 *)
Definition store_value (value ply : Z) : Z :=
  let v1 := if value <? MateLo then wrap16 (value - ply) else value in
  if MateHi <? v1 then wrap16 (v1 + ply) else v1.

(* packed(d)<<2 | packed(typ) on bytes *)
Definition pack (d typ : Z) : Z := Z.lor (Z.land (Z.shiftl (Z.land d 255) 2) 255) (Z.land typ 255).

Definition insert_bucket (b : bucket) (hashKey gen d ply sm value typ : Z) : bucket :=
  match scan_loop (b_entries b) 0 (b_keys b) (2 ^ 50) 0 hashKey gen d sm typ with
  | ScanReturn => b
  | ScanReplace replace sm' =>
      let e := mkEntry sm' (store_value value ply) (pack d typ) gen in
      let sh := replace * partialKeyBits in
      let keys1 := Z.land (b_keys b) (not64 (and64 (Z.shiftl lane_mask sh))) in
      let keys2 := Z.lor keys1 (and64 (Z.shiftl hashKey sh)) in
      mkBucket keys2 (set_nth (Z.to_nat replace) e (b_entries b))
  end.

Definition insert (t : table) (hash gen d ply sm value typ : Z) : table :=
  let ix := Z.to_nat (bucket_ix (Z.of_nat (length t)) hash) in
  set_nth ix (insert_bucket (nth ix t zero_bucket) (partial_key hash) gen d ply sm value typ) t.

(* ---------------------------------------------------------------------------------------- *)
(* correspondence entry points *)

(* what a probe shows through the exported accessors: hit?, Depth(), Type(), Value(ply), Move *)
Definition probe_obs (t : table) (hash ply : Z) : list Z :=
  match lookup t hash with
  | Some e => [1; e_depth e; e_type e; entry_value e ply; e_move e]
  | None => [0; 0; 0; 0; 0]
  end.

Definition snapshot (t : table) (pool : list Z) (ply : Z) : list Z :=
  flat_map (fun h => probe_obs t h ply) pool.

(* ops: 8 integers each  [kind; hash; gen; depth; ply; move; value; type]
     kind 0 store, 1 probe, 2 clear, 3 resize(to `hash` bytes)+clear, 4 resize only, else no-op.
   Arguments are converted as the Go harness converts them (uint64, byte, int8, uint16, int16).
   A probe outputs 5 numbers; every mutating op is followed by a probe of all pool keys at the
   op's ply. None = panic. *)
Fixpoint run_ops (pool : list Z) (t : table) (ops : list Z) {struct ops} : option (list Z) :=
  match ops with
  | k :: h :: g :: d :: p :: m :: v :: ty :: rest =>
      let hash := and64 h in
      let ply := wrap8 p in
      if k =? 0 then
        let t' := insert t hash (Z.land g 255) (wrap8 d) ply (Z.land m 65535) (wrap16 v) (Z.land ty 255) in
        match run_ops pool t' rest with
        | Some out => Some (snapshot t' pool ply ++ out)
        | None => None
        end
      else if k =? 1 then
        match run_ops pool t rest with
        | Some out => Some (probe_obs t hash ply ++ out)
        | None => None
        end
      else if k =? 2 then
        let t' := tt_clear t in
        match run_ops pool t' rest with
        | Some out => Some (snapshot t' pool ply ++ out)
        | None => None
        end
      else if k =? 3 then
        match tt_resize t (wrap64 h) with
        | None => None
        | Some t1 =>
            let t' := tt_clear t1 in
            match run_ops pool t' rest with
            | Some out => Some (snapshot t' pool ply ++ out)
            | None => None
            end
        end
      else if k =? 4 then
        match tt_resize t (wrap64 h) with
        | None => None
        | Some t' =>
            match run_ops pool t' rest with
            | Some out => Some (snapshot t' pool ply ++ out)
            | None => None
            end
        end
      else run_ops pool t rest
  | _ => Some []
  end.

(* input: size0 :: npool :: pool ++ nops :: ops *)
Definition run_c15 (input : list Z) : list Z :=
  match input with
  | size0 :: np :: rest =>
      let pool := map and64 (firstn (Z.to_nat np) rest) in
      match skipn (Z.to_nat np) rest with
      | nops :: ops =>
          match tt_new (wrap64 size0) with
          | None => [-1; -1; -1]
          | Some t =>
              match run_ops pool t (firstn (Z.to_nat (8 * nops)) ops) with
              | Some out => out
              | None => [-1; -1; -1]
              end
          end
      | [] => []
      end
  | _ => []
  end.

(* direct stream for the lane matching helper: [w; key] -> [ok; ix] *)
Definition run_m64 (input : list Z) : list Z :=
  match input with
  | w :: key :: nil =>
      match match64 (and64 w) (Z.land key 65535) with
      | Some ix => [1; ix]
      | None => [0; 0]
      end
  | _ => []
  end.

(* ---------------------------------------------------------------------------------------- *)
(* stream c15multi: several tables alive at once, and probe results that are read late.
   input: ntab :: npool :: pool ++ nops :: ops, 9 integers per op
          [kind; tab; hash; gen; depth; ply; move; value; type]
     kinds 0..4 as in c15, on the table in slot `tab`;
     5 = New(`hash` bytes) into slot `tab`, followed by a probe of all pool keys;
     6 = LookUp whose result is kept: its accessors are read only at the next op that is not a 6
         (7 = nothing else; the harness reads them first to last or last to first);
     the output of the held probes comes in the order of the LookUp calls.
   An op on an empty or non-existent slot does nothing. Every table is an independent value: what
   one table answers never depends on another one. *)

Definition tabs := list (option table).

Definition get_tab (ts : tabs) (i : Z) : option table :=
  if i <? 0 then None else nth (Z.to_nat i) ts None.

Definition slot_ok (ts : tabs) (i : Z) : bool := (0 <=? i) && (i <? Z.of_nat (length ts)).

Definition set_tab (ts : tabs) (i : Z) (t : table) : tabs := set_nth (Z.to_nat i) (Some t) ts.

Definition flush_held (held : list (list Z)) : list Z := concat (rev held).

(* one op that is not a held probe: None = panic, else the new tables and the output *)
Definition multi_step (pool : list Z) (ts : tabs) (k tb h g d p m v ty : Z) : option (tabs * list Z) :=
  let hash := and64 h in
  let ply := wrap8 p in
  if k =? 5 then
    if slot_ok ts tb then
      match tt_new (wrap64 h) with
      | None => None
      | Some t => Some (set_tab ts tb t, snapshot t pool ply)
      end
    else Some (ts, [])
  else
    match get_tab ts tb with
    | None => Some (ts, [])
    | Some t =>
        if k =? 0 then
          let t' := insert t hash (Z.land g 255) (wrap8 d) ply (Z.land m 65535) (wrap16 v) (Z.land ty 255) in
          Some (set_tab ts tb t', snapshot t' pool ply)
        else if k =? 1 then Some (ts, probe_obs t hash ply)
        else if k =? 2 then
          let t' := tt_clear t in Some (set_tab ts tb t', snapshot t' pool ply)
        else if k =? 3 then
          match tt_resize t (wrap64 h) with
          | None => None
          | Some t1 => let t' := tt_clear t1 in Some (set_tab ts tb t', snapshot t' pool ply)
          end
        else if k =? 4 then
          match tt_resize t (wrap64 h) with
          | None => None
          | Some t' => Some (set_tab ts tb t', snapshot t' pool ply)
          end
        else Some (ts, [])
    end.

Fixpoint run_multi (pool : list Z) (ts : tabs) (held : list (list Z)) (ops : list Z) {struct ops}
  : option (list Z) :=
  match ops with
  | k :: tb :: h :: g :: d :: p :: m :: v :: ty :: rest =>
      if k =? 6 then
        run_multi pool ts
          (match get_tab ts tb with
           | Some t => probe_obs t (and64 h) (wrap8 p) :: held
           | None => held
           end) rest
      else
        match multi_step pool ts k tb h g d p m v ty with
        | None => None
        | Some (ts', o) =>
            match run_multi pool ts' [] rest with
            | Some out => Some (flush_held held ++ o ++ out)
            | None => None
            end
        end
  | _ => Some (flush_held held)
  end.

Definition clamp_ntab (n : Z) : nat := Z.to_nat (Z.min 8 n).

Definition run_c15multi (input : list Z) : list Z :=
  match input with
  | ntab :: np :: rest =>
      let pool := map and64 (firstn (Z.to_nat np) rest) in
      match skipn (Z.to_nat np) rest with
      | nops :: ops =>
          match run_multi pool (repeat None (clamp_ntab ntab)) [] (firstn (Z.to_nat (9 * nops)) ops) with
          | Some out => out
          | None => [-1; -1; -1]
          end
      | [] => []
      end
  | _ => []
  end.
