(* 64-bit words (Go's uint64 / chess.BitBoard) on N.

   Conventions: a word is an N below 2^64 (predicate [w64p]); every operation that can leave the
   range in Go wraps, and the wrap is written explicitly here with [N.land _ ones64] (measured:
   cheaper than [mod 2^64] in extracted code).  Squares are N below 64, bit s of a bitboard is
   square s (A1 = 0 ... H8 = 63).

   This file holds definitions and the basic lemmas; it is in plain stdlib style. *)
From Coq Require Import NArith List Bool Lia.
Import ListNotations.
Open Scope N_scope.

Definition ones64 : N := 18446744073709551615.
Definition two64 : N := 18446744073709551616.
Definition w64 (x : N) : N := N.land x ones64.
Definition w64p (x : N) : Prop := x < two64.

Definition band (x y : N) : N := N.land x y.
Definition bor (x y : N) : N := N.lor x y.
Definition bxor (x y : N) : N := N.lxor x y.
Definition bandn (x y : N) : N := N.ldiff x y.            (* x &^ y *)
Definition bnot (x : N) : N := N.lxor (w64 x) ones64.     (* ^x on 64 bits *)
Definition shl (x k : N) : N := w64 (N.shiftl x k).       (* x << k, truncated to 64 bits *)
Definition shr (x k : N) : N := N.shiftr x k.             (* x >> k *)
Definition add64 (x y : N) : N := w64 (x + y).
Definition sub64 (x y : N) : N := w64 (x + (two64 - w64 y)).
Definition mul64 (x y : N) : N := w64 (x * y).
Definition neg64 (x : N) : N := sub64 0 x.
Definition bit (s : N) : N := N.shiftl 1 s.               (* BitBoard(1) << s, s < 64 *)
Definition testb (x s : N) : bool := N.testbit x s.
Definition setb (x s : N) : N := N.lor x (bit s).
Definition clrb (x s : N) : N := N.ldiff x (bit s).

(* bits.TrailingZeros64: index of the lowest set bit, 64 for 0 *)
Fixpoint ctzp (p : positive) : N :=
  match p with xO q => N.succ (ctzp q) | _ => 0 end.
Definition lsb (b : N) : N := match b with N0 => 64 | Npos p => ctzp p end.

(* b & (b - 1): Go's idiom for dropping the lowest set bit (0 stays 0 because 0-1 wraps to all ones) *)
Definition clear_lsb (b : N) : N := N.land b (N.pred b).

(* bits.OnesCount64 *)
Fixpoint popcount_p (p : positive) : N :=
  match p with xH => 1 | xO q => popcount_p q | xI q => N.succ (popcount_p q) end.
Definition popcount (b : N) : N := match b with N0 => 0 | Npos p => popcount_p p end.

(* the set bits in ascending order: the order in which
   [for bb != 0 { sq := bb.LowestSet(); ...; bb &= bb - 1 }] visits them *)
Fixpoint bits_pos (p : positive) (i : N) : list N :=
  match p with
  | xH => [i]
  | xO q => bits_pos q (N.succ i)
  | xI q => i :: bits_pos q (N.succ i)
  end.
Definition bits_of (b : N) : list N := match b with N0 => [] | Npos p => bits_pos p 0 end.

(* IsPow2 *)
Definition is_pow2 (b : N) : bool := (clear_lsb b =? 0) && negb (b =? 0).

(* file / rank masks *)
Definition AFileBB : N := 72340172838076673.      (* 0x0101010101010101 *)
Definition HFileBB : N := 9259542123273814144.    (* 0x8080808080808080 *)
Definition rank_bb (r : N) : N := N.shiftl 255 (8 * r).
Definition file_bb (f : N) : N := N.shiftl AFileBB f.

(* ------------------------------------------------------------------------------------------ *)
(* basic lemmas *)

Lemma ones64_eq : ones64 = N.ones 64.
Proof. reflexivity. Qed.

Lemma w64_spec x : w64 x = x mod two64.
Proof. unfold w64. rewrite ones64_eq, N.land_ones. reflexivity. Qed.

Lemma w64_lt x : w64 x < two64.
Proof. rewrite w64_spec. apply N.mod_lt. discriminate. Qed.

Lemma w64_id x : x < two64 -> w64 x = x.
Proof. intros H. rewrite w64_spec. apply N.mod_small. exact H. Qed.

Lemma w64_testbit x i : N.testbit (w64 x) i = N.testbit x i && (i <? 64).
Proof.
  unfold w64. rewrite ones64_eq, N.land_spec.
  destruct (N.ltb_spec i 64) as [H|H].
  - rewrite N.ones_spec_low by exact H. reflexivity.
  - rewrite N.ones_spec_high by exact H. reflexivity.
Qed.

Lemma lt_two64_testbit x : x < two64 -> forall i, 64 <= i -> N.testbit x i = false.
Proof.
  intros H i Hi. destruct (N.eq_dec x 0) as [->|Hx]; [apply N.bits_0|].
  apply N.bits_above_log2. change two64 with (2 ^ 64) in H.
  apply N.log2_lt_pow2 in H; lia.
Qed.

Lemma testbit_lt_two64 x : (forall i, 64 <= i -> N.testbit x i = false) -> x < two64.
Proof.
  intros H. destruct (N.eq_dec x 0) as [->|Hx]; [reflexivity|].
  change two64 with (2 ^ 64). apply N.log2_lt_pow2; [lia|].
  destruct (N.lt_ge_cases (N.log2 x) 64) as [L|L]; [exact L|].
  pose proof (N.bit_log2 x Hx) as B. rewrite H in B by exact L. discriminate.
Qed.

Lemma bit_testbit s i : N.testbit (bit s) i = (s =? i).
Proof.
  unfold bit. destruct (N.eqb_spec s i) as [->|H].
  - rewrite N.shiftl_spec_high' by lia. rewrite N.sub_diag. reflexivity.
  - destruct (N.lt_ge_cases i s) as [L|L].
    + apply N.shiftl_spec_low. exact L.
    + rewrite N.shiftl_spec_high' by exact L.
      replace (i - s) with (N.succ (N.pred (i - s))) by lia.
      change 1 with (2 * 0 + 1). rewrite N.testbit_odd_succ by lia. apply N.bits_0.
Qed.

Lemma bit_lt s : s < 64 -> bit s < two64.
Proof.
  intros H. apply testbit_lt_two64. intros i Hi. rewrite bit_testbit.
  apply N.eqb_neq. lia.
Qed.

Lemma setb_testbit x s i : N.testbit (setb x s) i = N.testbit x i || (s =? i).
Proof. unfold setb. rewrite N.lor_spec, bit_testbit. reflexivity. Qed.

Lemma clrb_testbit x s i : N.testbit (clrb x s) i = N.testbit x i && negb (s =? i).
Proof. unfold clrb. rewrite N.ldiff_spec, bit_testbit. reflexivity. Qed.

(* lowest set bit *)
Lemma ctzp_testbit p : N.testbit (Npos p) (ctzp p) = true.
Proof.
  induction p as [q IH|q IH|]; cbn [ctzp]; try reflexivity.
  change (Npos q~0) with (2 * Npos q). rewrite N.testbit_even_succ by lia. exact IH.
Qed.

Lemma ctzp_below p i : i < ctzp p -> N.testbit (Npos p) i = false.
Proof.
  revert i; induction p as [q IH|q IH|]; cbn [ctzp]; intros i Hi; try lia.
  destruct (N.eq_dec i 0) as [->|Hn]; [reflexivity|].
  replace i with (N.succ (N.pred i)) by lia.
  change (Npos q~0) with (2 * Npos q). rewrite N.testbit_even_succ by lia. apply IH. lia.
Qed.

Lemma clear_lsb_pos p : clear_lsb (Npos p) = N.clearbit (Npos p) (ctzp p).
Proof.
  unfold clear_lsb.
  induction p as [q IH|q IH|]; cbn [ctzp].
  - apply N.bits_inj; intro n. rewrite N.land_spec, N.clearbit_eqb.
    destruct (N.eq_dec n 0) as [->|Hn].
    + cbn. reflexivity.
    + rewrite (proj2 (N.eqb_neq 0 n)) by lia.
      replace n with (N.succ (N.pred n)) by lia.
      change (N.pred (Npos q~1)) with (2 * Npos q).
      change (Npos q~1) with (2 * Npos q + 1).
      rewrite N.testbit_odd_succ, N.testbit_even_succ by lia.
      rewrite andb_diag. cbn. rewrite andb_true_r. reflexivity.
  - apply N.bits_inj; intro n. rewrite N.land_spec, N.clearbit_eqb.
    change (Npos q~0) with (2 * Npos q).
    replace (N.pred (2 * Npos q)) with (2 * N.pred (Npos q) + 1) by lia.
    destruct (N.eq_dec n 0) as [->|Hn].
    + rewrite N.testbit_even_0. cbn. reflexivity.
    + replace n with (N.succ (N.pred n)) by lia.
      rewrite N.testbit_odd_succ, N.testbit_even_succ by lia.
      rewrite <- N.land_spec. rewrite IH.
      rewrite N.clearbit_eqb.
      f_equal. f_equal.
      destruct (N.eqb_spec (ctzp q) (N.pred n)); destruct (N.eqb_spec (N.succ (ctzp q)) (N.succ (N.pred n))); try reflexivity; lia.
  - reflexivity.
Qed.

Lemma clear_lsb_spec b i : b <> 0 -> N.testbit (clear_lsb b) i = N.testbit b i && negb (lsb b =? i).
Proof. destruct b as [|p]; [congruence|]. intros _. rewrite clear_lsb_pos, N.clearbit_eqb. reflexivity. Qed.

Lemma lsb_testbit b : b <> 0 -> N.testbit b (lsb b) = true.
Proof. destruct b as [|p]; [congruence|]. intros _. apply ctzp_testbit. Qed.

Lemma lsb_lowest b i : i < lsb b -> N.testbit b i = false.
Proof. destruct b as [|p]; [intros _; apply N.bits_0|]. apply ctzp_below. Qed.

(* bits_of *)
Lemma bits_pos_spec p : forall i s, In s (bits_pos p i) <-> (i <= s /\ N.testbit (Npos p) (s - i) = true).
Proof.
  induction p as [q IH|q IH|]; intros i s; cbn [bits_pos In].
  - rewrite IH. split.
    + intros [<-|[H1 H2]].
      * split; [lia|]. rewrite N.sub_diag. reflexivity.
      * split; [lia|]. replace (s - i) with (N.succ (s - N.succ i)) by lia.
        change (Npos q~1) with (2 * Npos q + 1). rewrite N.testbit_odd_succ by lia. exact H2.
    + intros [H1 H2]. destruct (N.eq_dec i s) as [->|Hn]; [left; reflexivity|right].
      split; [lia|]. replace (s - i) with (N.succ (s - N.succ i)) in H2 by lia.
      change (Npos q~1) with (2 * Npos q + 1) in H2. rewrite N.testbit_odd_succ in H2 by lia. exact H2.
  - rewrite IH. split.
    + intros [H1 H2]. split; [lia|]. replace (s - i) with (N.succ (s - N.succ i)) by lia.
      change (Npos q~0) with (2 * Npos q). rewrite N.testbit_even_succ by lia. exact H2.
    + intros [H1 H2]. destruct (N.eq_dec i s) as [->|Hn].
      * rewrite N.sub_diag in H2. discriminate.
      * split; [lia|]. replace (s - i) with (N.succ (s - N.succ i)) in H2 by lia.
        change (Npos q~0) with (2 * Npos q) in H2. rewrite N.testbit_even_succ in H2 by lia. exact H2.
  - split.
    + intros [<-|[]]. split; [lia|]. rewrite N.sub_diag. reflexivity.
    + intros [H1 H2]. left. destruct (N.eq_dec i s) as [->|Hn]; [reflexivity|].
      replace (s - i) with (N.succ (N.pred (s - i))) in H2 by lia.
      change 1 with (2 * 0 + 1) in H2. rewrite N.testbit_odd_succ in H2 by lia.
      rewrite N.bits_0 in H2. discriminate.
Qed.

Lemma bits_of_spec b s : In s (bits_of b) <-> N.testbit b s = true.
Proof.
  destruct b as [|p]; cbn [bits_of].
  - rewrite N.bits_0. split; [intros []|discriminate].
  - rewrite bits_pos_spec, N.sub_0_r. split; [intros [_ H]; exact H|intros H; split; [lia|exact H]].
Qed.

Lemma bits_pos_lb p : forall i s, In s (bits_pos p i) -> i <= s.
Proof. intros i s H. apply bits_pos_spec in H. tauto. Qed.

Lemma bits_pos_NoDup p : forall i, NoDup (bits_pos p i).
Proof.
  induction p as [q IH|q IH|]; intros i; cbn [bits_pos].
  - constructor; [|apply IH]. intros H. apply bits_pos_lb in H. lia.
  - apply IH.
  - constructor; [intros []|constructor].
Qed.

Lemma bits_of_NoDup b : NoDup (bits_of b).
Proof. destruct b as [|p]; [constructor|apply bits_pos_NoDup]. Qed.

Lemma bits_of_lt b s : b < two64 -> In s (bits_of b) -> s < 64.
Proof.
  intros Hb H. apply bits_of_spec in H.
  destruct (N.lt_ge_cases s 64) as [L|L]; [exact L|].
  rewrite (lt_two64_testbit b Hb s L) in H. discriminate.
Qed.

(* the loop view: bits_of b = lsb b :: bits_of (clear_lsb b) *)
Lemma bits_pos_shift p : forall i, bits_pos p i = map (N.add i) (bits_pos p 0).
Proof.
  induction p as [q IH|q IH|]; intros i; cbn [bits_pos map].
  - rewrite (IH (N.succ i)), (IH (N.succ 0)), map_map. f_equal; [lia|].
    apply map_ext. intros a. lia.
  - rewrite (IH (N.succ i)), (IH (N.succ 0)), map_map. apply map_ext. intros a. lia.
  - f_equal. lia.
Qed.

Lemma popcount_bits_of b : popcount b = N.of_nat (length (bits_of b)).
Proof.
  destruct b as [|p]; [reflexivity|]. cbn [popcount bits_of].
  generalize 0. induction p as [q IH|q IH|]; intros i; cbn [popcount_p bits_pos length].
  - rewrite (IH (N.succ i)). lia.
  - apply IH.
  - reflexivity.
Qed.
