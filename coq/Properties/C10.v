(* C10 - Repetition count equals true recurrences of the position in the game.
   Statements only; proofs live in Proofs/Rep3Scan.v, Rep3Chess.v, Rep3Hash.v, Rep3True.v.

   threefold / threefold_hashes  Model/Board.v   (transliteration of Board.Threefold)
   run_moves / run_boards        Model/Rep3.v    (the MakeMove loop of uci.applyMoves)
   spec_hist, legal_chain, rep_count, far_even_matches   Spec/RepSpec.v
   pos_key, valid, normal_ep, legal_spec, succ_spec      Spec/Chess.v
   step_link, valid_link, no_collision                   Spec/RepLinks.v (the named premises) *)
From Coq Require Import NArith ZArith List Bool.
From Chess3 Require Import Base.Bits Model.Types Model.BoardDef Model.Board Model.Rep3
     Spec.Geometry Spec.Chess Spec.Rep Spec.RepSpec Spec.RepLinks
     Proofs.Rep3Scan Proofs.Rep3Chess Proofs.Rep3Hash Proofs.Rep3True Proofs.Rep3Examples Gen.Zobrist.
Import ListNotations.

(* 1. What Threefold computes, for EVERY hash history (newest first): one, plus the number of entries
      at the even distances 4, 6, 8, ... that equal the newest entry, capped at three. *)
Theorem C10_count : forall hs : list N,
  threefold_hashes hs = Z.min 3 (1 + far_even_matches hs).
Proof. exact threefold_count. Qed.
Print Assumptions C10_count.

(* 2. The property.  For arbitrary Zobrist tables z, every root board b0 as FromFEN leaves it
      (history = its own hash), valid, not carrying a dead en-passant square, and every list of legal
      moves: the count reported after playing the moves is the number of positions of the game that
      are the same as the current one (rep_count: occurrences of the last position key in the list
      of all position keys, capped at three). *)
Definition C10_statement : Prop :=
  forall (z : zobrist) (b0 : board) (ms : list N),
    Rep (reset_hash z b0) -> valid (abs b0) = true -> normal_ep (abs b0) = true ->
    legal_chain (abs b0) ms = true ->
    no_collision z (combine (run_boards z (reset_hash z b0) ms) (spec_hist (abs b0) ms)) ->
    threefold (run_moves z (reset_hash z b0) ms) = rep_count (map pos_key (spec_hist (abs b0) ms)).

Theorem C10_true : forall (z : zobrist) (b0 : board) (ms : list N),
  step_link z -> valid_link ->
  Rep (reset_hash z b0) -> valid (abs b0) = true -> normal_ep (abs b0) = true ->
  legal_chain (abs b0) ms = true ->
  no_collision z (combine (run_boards z (reset_hash z b0) ms) (spec_hist (abs b0) ms)) ->
  threefold (run_moves z (reset_hash z b0) ms) = rep_count (map pos_key (spec_hist (abs b0) ms)).
Proof. exact threefold_true. Qed.
Print Assumptions C10_true.

Theorem C10_from_links : (forall z, step_link z) -> valid_link -> C10_statement.
Proof. intros S V z b0 ms. apply threefold_true; auto. Qed.
Print Assumptions C10_from_links.

(* 3. The ingredients, proved from the chess specification alone (no premises beyond validity). *)

(* equal position keys decide by key_eqb (used by rep_count) *)
Theorem C10_key_eqb : forall a b : poskey, key_eqb a b = true <-> a = b.
Proof. exact key_eqb_eq. Qed.
Print Assumptions C10_key_eqb.

(* no position recurs after exactly two plies: this is why the scan may start four plies back *)
Theorem C10_no_repeat_at_2 : forall p m m',
  valid p = true -> legal_spec p m = true ->
  pos_key (succ_spec (succ_spec p m) m') <> pos_key p.
Proof.
  intros p m m' V L E. apply (no_repeat_at_2 p m m' (valid_len _ V) (legal_pseudo _ _ L)).
  now apply pos_key_at.
Qed.
Print Assumptions C10_no_repeat_at_2.

(* turns alternate, so equal positions are an even number of plies apart: step two *)
Theorem C10_key_parity : forall p0 ms i d, (i + d <= length ms)%nat ->
  pos_key (nth (i + d) (spec_hist p0 ms) p0) = pos_key (nth i (spec_hist p0 ms) p0) -> Nat.even d = true.
Proof. intros p0 ms i d H E. apply (key_parity p0 ms i d H). now apply pos_key_turn. Qed.
Print Assumptions C10_key_parity.

(* transient en-passant rights: a position with an en-passant square has a placement that never
   occurred earlier in the game (a pawn on its initial rank has always stood there) *)
Theorem C10_ep_position_is_new : forall p0 ms i j e, valid_link -> valid p0 = true ->
  legal_chain p0 ms = true -> (i < j)%nat -> (j <= length ms)%nat ->
  epsq (nth j (spec_hist p0 ms) p0) = Some e ->
  at_ (nth i (spec_hist p0 ms) p0) <> at_ (nth j (spec_hist p0 ms) p0).
Proof. intros p0 ms i j e VL V L. exact (P_ep_fresh p0 ms VL V L i j e). Qed.
Print Assumptions C10_ep_position_is_new.

(* calculateHash is a function of placement, side to move, castling rights and en-passant square,
   for arbitrary Zobrist tables *)
Theorem C10_hash_of_key : forall z b b', Rep b -> Rep b' ->
  at_ (abs b) = at_ (abs b') -> stm b = stm b' -> castles b = castles b' -> ep b = ep b' ->
  calc_hash z b = calc_hash z b'.
Proof. exact calc_hash_core. Qed.
Print Assumptions C10_hash_of_key.

(* MakeMove appends exactly one entry to the history *)
Theorem C10_history_grows : forall z b m,
  hashes (fst (make z b m)) = cur_hash (fst (make z b m)) :: hashes b.
Proof. exact make_hashes. Qed.
Print Assumptions C10_history_grows.

(* ------------------------------------------------------------------------------------------ *)
(* The per-game premises are satisfiable: the start position, knights out and back twice (the
   engine's real Zobrist tables); the count is three.  (start_board, knights8: Proofs/Rep3Examples.v;
   evaluated there by vm_compute.) *)
Example C10_premises_hold :
  rep_ok (reset_hash zob_real start_board) = true /\
  valid (abs start_board) = true /\ normal_ep (abs start_board) = true /\
  legal_chain (abs start_board) knights8 = true /\
  no_collision_b zob_real (combine (run_boards zob_real (reset_hash zob_real start_board) knights8)
                                   (spec_hist (abs start_board) knights8)) = true /\
  threefold (run_moves zob_real (reset_hash zob_real start_board) knights8) = 3%Z /\
  rep_count (map pos_key (spec_hist (abs start_board) knights8)) = 3%Z /\
  cur_hash (reset_hash zob_real start_board) = calc_hash zob_real start_board.
Proof. exact premises_hold. Qed.

(* ------------------------------------------------------------------------------------------ *)
(* Finding fen-ep-flag: the premise normal_ep cannot be dropped.  A valid root carrying an
   en-passant square without a legal capture (after 1.e4, written the strict FEN way:
   rnbqkbnr/pppppppp/8/8/4P3/8/PPPP1PPP/RNBQKBNR b KQkq e3 0 1) is hashed with that file; when the
   same position recurs four plies later (g8f6 g1f3 f6g8 f3g1) the engine counts 1, the true count
   is 2.  (e4_board, knights4: Proofs/Rep3Examples.v.) *)
Theorem C10_fen_ep_refuted : exists (b0 : board) (ms : list N),
  Rep (reset_hash zob_real b0) /\ valid (abs b0) = true /\ legal_chain (abs b0) ms = true /\
  no_collision zob_real (combine (run_boards zob_real (reset_hash zob_real b0) ms) (spec_hist (abs b0) ms)) /\
  normal_ep (abs b0) = false /\
  threefold (run_moves zob_real (reset_hash zob_real b0) ms) = 1%Z /\
  rep_count (map pos_key (spec_hist (abs b0) ms)) = 2%Z.
Proof. exact fen_ep_refuted. Qed.
Print Assumptions C10_fen_ep_refuted.
