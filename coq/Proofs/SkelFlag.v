(* Layer A, domain 2 (abort flag), C08 mechanism "abort is checked before any persistent store is
   updated":
   - a persistent store (s.tt.Insert, s.ranker.FailHigh) executed while s.aborted is set can only
     carry one of the allow-listed tags;
   - an activation entered with the flag set, or with the hard node budget exhausted (and not
     pondering), performs no persistent store at all and returns doomed (C08 soft/hard replay);
   - refresh returns with the flag cleared. *)
From Coq Require Import String List ZArith Bool Lia.
From Chess3 Require Import Model.Skel Model.SkelCheck Proofs.SkelProofs Proofs.SkelBalance.
Import ListNotations.
Open Scope string_scope.

Lemma flag_eqb_eq a b : flag_eqb a b = true -> a = b.
Proof. destruct a, b; cbn; intros H; try discriminate; reflexivity. Qed.
Lemma flag_eqb_refl a : flag_eqb a a = true.
Proof. destruct a; reflexivity. Qed.

Section Flag.
Variables B M T : Type.
Variable make : M -> B -> B * T.
Variable undo : M -> T -> B -> B.
Variable make_null : B -> B * T.
Variable undo_null : T -> B -> B.
Variable ftable : list (string * stmt).
Variables allowed resetters clearers quiet : list string.
Variable L0 : list string.              (* late stores recorded before the execution starts *)

Notation glob := (glob B M).
Notation locals := (locals M T).
Notation cstate := (cstate B M T).
Notation astep := (astep B M T make undo make_null undo_null).
Notation exec := (exec B M T make undo make_null undo_null ftable).
Notation D := (flag_dom allowed resetters clearers quiet).

Definition doomed (g : glob) : Prop :=
  aborted B M g = true \/ (budget B M g <> (-1)%Z /\ (budget B M g <= nodes B M g)%Z /\ ponder B M g = false).

Definition late_ok (g : glob) : Prop := forall t, In t (late B M g) -> In t allowed \/ In t L0.

Definition Gflag (e : nat) (x : flag) (c : cstate) : Prop :=
  late_ok (fst c) /\
  match x with
  | FU => True
  | FN => aborted B M (fst c) = false
  | FA => aborted B M (fst c) = true
  | FC => True
  | DD => doomed (fst c) /\ stores B M (fst c) = e
  | DE => doomed (fst c) /\ aborted B M (fst c) = false /\ stores B M (fst c) = e
  | DA => aborted B M (fst c) = true /\ stores B M (fst c) = e
  end.

Definition flag_Inv (c : cstate) : Prop := late_ok (fst c).

Lemma inc_nodes_facts g :
  late B M (inc_nodes B M g) = late B M g /\ stores B M (inc_nodes B M g) = stores B M g
  /\ (aborted B M g = true -> aborted B M (inc_nodes B M g) = true)
  /\ (doomed g -> aborted B M (inc_nodes B M g) = true).
Proof.
  unfold inc_nodes, doomed.
  destruct ((budget B M g =? -1)%Z || (nodes B M g <? budget B M g)%Z) eqn:E.
  - cbn. repeat split; auto. intros [K|[K1 [K2 K3]]]; [exact K|].
    apply orb_true_iff in E as [E|E]; [apply Z.eqb_eq in E; contradiction | apply Z.ltb_lt in E; lia].
  - destruct (ponder B M g) eqn:P; cbn; repeat split; auto.
    intros [K|[K1 [K2 K3]]]; [exact K | congruence].
Qed.

Lemma dmode_doomed e x c : dmode x = true -> Gflag e x c -> doomed (fst c) /\ stores B M (fst c) = e.
Proof.
  destruct x; cbn; try discriminate; intros _ [_ H].
  - exact H.
  - destruct H as [H1 [_ H2]]. auto.
  - destruct H as [H1 H2]. split; [left; exact H1 | exact H2].
Qed.

Lemma flag_atom_sound e a ax ay c c' :
  flag_atom allowed a ax = Some ay -> Gflag e ax c -> astep a c c' -> Gflag e ay c'.
Proof.
  intros Htf HG Hst.
  assert (Keep : forall g g' l l', c = (g, l) -> c' = (g', l') ->
            late B M g' = late B M g -> stores B M g' = stores B M g -> aborted B M g' = aborted B M g ->
            (doomed g -> doomed g') -> Gflag e ax c').
  { intros g g' l l' -> -> Hl Hs Ha Hd. destruct HG as [Hlate Hx]. split.
    - unfold late_ok in *. cbn [fst] in *. rewrite Hl. exact Hlate.
    - cbn [fst] in *. destruct ax; rewrite ?Ha, ?Hs; auto.
      + destruct Hx; split; auto.
      + destruct Hx as [H1 [H2 H3]]; repeat split; auto. }
  inversion Hst; subst; cbn in Htf;
    try (injection Htf as <-; eapply Keep; try reflexivity; (exact (fun K => K) || idtac); fail).
  - (* MsPop *) injection Htf as <-. eapply Keep; try reflexivity;
      destruct (ms_frames B M g); try reflexivity; exact (fun K => K).
  - (* IncNodes *) injection Htf as <-. destruct HG as [Hlate Hx]. cbn [fst] in *.
    destruct (inc_nodes_facts g) as [Il [Is [Ia Id]]].
    split; [unfold late_ok in *; cbn [fst]; rewrite Il; exact Hlate|]. cbn [fst].
    destruct ax; cbn; auto.
    + destruct Hx as [Hd Hs]. split; [apply Id, Hd | congruence].
    + destruct Hx as [Hd [_ Hs]]. split; [apply Id, Hd | congruence].
    + destruct Hx as [Ha Hs]. split; [apply Ia, Ha | congruence].
  - (* ClearAbort *) destruct HG as [Hlate _].
    destruct ax; try discriminate; injection Htf as <-; (split; [exact Hlate | reflexivity]).
  - (* PonderOff *) injection Htf as <-. eapply Keep; try reflexivity.
    unfold doomed. cbn. intros [K|[K1 [K2 _]]]; auto.
  - (* TTInsert *)
    destruct HG as [Hlate Hx]. cbn [fst] in *. unfold flag_store in Htf.
    destruct ax; try discriminate.
    + destruct (mem tag allowed) eqn:Mt; [|discriminate]. injection Htf as <-. split; [|exact I].
      unfold late_ok, store_event. cbn. destruct (aborted B M g); [|exact Hlate].
      intros t [<-|Ht]; [left; apply mem_In; exact Mt | apply Hlate, Ht].
    + injection Htf as <-. split; [|exact Hx].
      unfold late_ok, store_event. cbn. rewrite Hx. exact Hlate.
    + destruct (mem tag allowed) eqn:Mt; [|discriminate]. injection Htf as <-. split; [|exact Hx].
      unfold late_ok, store_event. cbn. destruct (aborted B M g); [|exact Hlate].
      intros t [<-|Ht]; [left; apply mem_In; exact Mt | apply Hlate, Ht].
    + destruct (mem tag allowed) eqn:Mt; [|discriminate]. injection Htf as <-. split; [|exact I].
      unfold late_ok, store_event. cbn. destruct (aborted B M g); [|exact Hlate].
      intros t [<-|Ht]; [left; apply mem_In; exact Mt | apply Hlate, Ht].
  - (* HistUpdate *)
    destruct HG as [Hlate Hx]. cbn [fst] in *. unfold flag_store in Htf.
    destruct ax; try discriminate.
    + destruct (mem tag allowed) eqn:Mt; [|discriminate]. injection Htf as <-. split; [|exact I].
      unfold late_ok, store_event. cbn. destruct (aborted B M g); [|exact Hlate].
      intros t [<-|Ht]; [left; apply mem_In; exact Mt | apply Hlate, Ht].
    + injection Htf as <-. split; [|exact Hx].
      unfold late_ok, store_event. cbn. rewrite Hx. exact Hlate.
    + destruct (mem tag allowed) eqn:Mt; [|discriminate]. injection Htf as <-. split; [|exact Hx].
      unfold late_ok, store_event. cbn. destruct (aborted B M g); [|exact Hlate].
      intros t [<-|Ht]; [left; apply mem_In; exact Mt | apply Hlate, Ht].
    + destruct (mem tag allowed) eqn:Mt; [|discriminate]. injection Htf as <-. split; [|exact I].
      unfold late_ok, store_event. cbn. destruct (aborted B M g); [|exact Hlate].
      intros t [<-|Ht]; [left; apply mem_In; exact Mt | apply Hlate, Ht].
  - (* FreshCounters *) destruct (dmode ax) eqn:Dm; [discriminate|]. injection Htf as <-.
    destruct HG as [Hlate Hx]. split; [exact Hlate|]. destruct ax; try discriminate; exact Hx.
Qed.

Lemma flag_call_sound e x c f p xin xout me te ce :
  flag_call resetters clearers quiet f p x = Some (xin, xout) -> Gflag e x c ->
  exists e', Gflag e' xin (enter B M T p c me te ce) /\
             forall xe c2, Gflag e' xe c2 -> flag_exit clearers quiet f xin xe = true ->
                           Gflag e xout (leave B M T p c c2).
Proof.
  intros Hcp HG. exists (stores B M (fst c)).
  assert (En : forall y, Gflag (stores B M (fst c)) y c -> Gflag (stores B M (fst c)) y (enter B M T p c me te ce)).
  { intros y Hy. unfold enter. destruct (is_search_call p); exact Hy. }
  assert (Lv : forall e0 y c2, Gflag e0 y (fst c2, snd c) -> Gflag e0 y (leave B M T p c c2)).
  { intros e0 y c2 Hy. unfold leave. destruct (is_search_call p); exact Hy. }
  unfold flag_call in Hcp. destruct (dmode x) eqn:Dm.
  - destruct (mem f resetters); [discriminate|]. injection Hcp as <- <-.
    destruct (dmode_doomed _ _ _ Dm HG) as [Hd Hs]. destruct HG as [Hlate _].
    split; [apply En; split; [exact Hlate | split; [exact Hd | reflexivity]]|].
    intros xe c2 HG2 Hex. unfold flag_exit in Hex. cbn in Hex.
    destruct (dmode_doomed _ _ _ Hex HG2) as [Hd2 Hs2]. destruct HG2 as [Hlate2 _].
    apply Lv. split; [exact Hlate2 | split; [exact Hd2 | cbn [fst]; congruence]].
  - destruct HG as [Hlate Hx].
    assert (HU : Gflag (stores B M (fst c)) FU c) by (split; [exact Hlate | exact I]).
    destruct (mem f clearers) eqn:Mc.
    { injection Hcp as <- <-. split; [apply En; split; [exact Hlate | exact I]|].
      intros xe c2 [Hl2 Hx2] Hex. unfold flag_exit in Hex. cbn in Hex. rewrite Mc in Hex.
      apply andb_true_iff in Hex as [Hex _]. apply andb_true_iff in Hex as [_ Hex].
      apply flag_eqb_eq in Hex. subst xe. apply Lv. split; [exact Hl2 | exact Hx2]. }
    assert (Dflt : (xin, xout) = (FU, FU) ->
              Gflag (stores B M (fst c)) xin (enter B M T p c me te ce) /\
              forall xe c2, Gflag (stores B M (fst c)) xe c2 ->
                flag_exit clearers quiet f xin xe = true -> Gflag e xout (leave B M T p c c2)).
    { intros Heq. injection Heq as -> ->. split; [apply En, HU|].
      intros xe c2 [Hl2 _] _. apply Lv. split; [exact Hl2 | exact I]. }
    destruct x; try discriminate; try (injection Hcp as <- <-; apply Dflt; reflexivity).
    destruct (mem f quiet) eqn:Mq; [|injection Hcp as <- <-; apply Dflt; reflexivity].
    injection Hcp as <- <-. split; [apply En; split; [exact Hlate | exact Hx]|].
    intros xe c2 [Hl2 Hx2] Hex. unfold flag_exit in Hex. cbn in Hex. rewrite Mc, Mq in Hex.
    apply andb_true_iff in Hex as [_ Hex]. apply flag_eqb_eq in Hex. subst xe.
    apply Lv. split; [exact Hl2 | exact Hx2].
Qed.

Hypothesis table_checked : table_ok D ftable = true.

Lemma flag_call_checked f p c o c' e x xin xout :
  exec (Call f p) c o c' -> flag_call resetters clearers quiet f p x = Some (xin, xout) ->
  In xin (flag_entries resetters clearers quiet f) -> Gflag e x c ->
  match o with OHalt => flag_Inv c' | ONormal => Gflag e xout c' | _ => False end.
Proof.
  apply (call_checked B M T make undo make_null undo_null ftable D nat Gflag flag_Inv).
  - exact flag_eqb_eq.
  - intros e0 x0 y c0 Hle [Hl Hx]. split; [exact Hl|].
    destruct x0, y; cbn in Hle; try discriminate; auto.
    + destruct Hx as [H1 [H2 H3]]. auto.
    + destruct Hx as [H1 H2]. split; [left; exact H1 | exact H2].
  - intros e0 x0 c0 [Hl Hx]. split; [exact Hl|]. destruct x0; cbn; auto.
    + destruct Hx as [H1 [H2 H3]]. auto.
    + destruct Hx as [H1 H2]. split; [left; exact H1 | exact H2].
  - intros e0 x0 c0 [Hl _]. exact Hl.
  - exact flag_atom_sound.
  - intros e0 x0 g l [Hl Hx]. split; [exact Hl|]. destruct x0; cbn; auto.
    + destruct Hx as [_ Hs]. auto.
    + destruct Hx as [_ [_ Hs]]. auto.
    + destruct Hx as [_ Hs]. auto.
  - intros e0 x0 g l [Hl Hx] Ha. cbn [fst] in *. destruct x0; cbn.
    + exists FN. split; [reflexivity | split; [exact Hl | exact Ha]].
    + exists FN. split; [reflexivity | split; [exact Hl | exact Ha]].
    + congruence.
    + exists FN. split; [reflexivity | split; [exact Hl | exact Ha]].
    + exists DE. split; [reflexivity|]. destruct Hx as [Hd Hs]. split; [exact Hl | cbn; auto].
    + exists DE. split; [reflexivity | split; [exact Hl | exact Hx]].
    + destruct Hx. congruence.
  - intros e0 x0 g l c0 vs v HG _. exists x0. split; [reflexivity | exact HG].
  - intros e0 x0 g l a HG. exact HG.
  - exact flag_call_sound.
  - apply table_ok_lookup. exact table_checked.
  - exact flag_eqb_refl.
Qed.

Lemma FU_call_entry f p xin xout :
  flag_call resetters clearers quiet f p FU = Some (xin, xout) -> In xin (flag_entries resetters clearers quiet f).
Proof.
  unfold flag_call, flag_entries. cbn. destruct (mem f clearers).
  - intros H. injection H as <- <-. left. reflexivity.
  - intros H. injection H as <- <-. destruct (mem f resetters); left; reflexivity.
Qed.

(* (b) whatever happens during a call (any outcome, any intermediate point), the stores recorded as
   executed with the abort flag set carry allow-listed tags only *)
Theorem late_stores_allowed f p c o c' :
  exec (Call f p) c o c' -> late_ok (fst c) -> late_ok (fst c').
Proof.
  intros Hex Hl.
  assert (HG : Gflag 0 FU c) by (split; [exact Hl | exact I]).
  destruct (flag_call resetters clearers quiet f p FU) as [[xin xout]|] eqn:Cp.
  2:{ unfold flag_call in Cp. cbn in Cp. destruct (mem f clearers); discriminate. }
  pose proof (flag_call_checked _ _ _ _ _ _ _ _ _ Hex Cp (FU_call_entry _ _ _ _ Cp) HG) as P.
  inversion Hex; subst; cbn in P; try exact P. destruct P as [P _]. exact P.
Qed.

(* (c) entered doomed (flag set, or budget exhausted and not pondering): no persistent store *)
Theorem doomed_no_store f p c c' :
  mem f resetters = false -> mem f clearers = false ->
  exec (Call f p) c ONormal c' -> late_ok (fst c) -> doomed (fst c) ->
  stores B M (fst c') = stores B M (fst c) /\ doomed (fst c').
Proof.
  intros Hr Hcl Hex Hl Hd.
  assert (HG : Gflag (stores B M (fst c)) DD c) by (split; [exact Hl | split; [exact Hd | reflexivity]]).
  assert (Cp : flag_call resetters clearers quiet f p DD = Some (DD, DD))
    by (unfold flag_call; cbn; rewrite Hr; reflexivity).
  assert (Hin : In DD (flag_entries resetters clearers quiet f))
    by (unfold flag_entries; rewrite Hcl, Hr; right; left; reflexivity).
  pose proof (flag_call_checked _ _ _ _ _ _ _ _ _ Hex Cp Hin HG) as [_ [P1 P2]]. auto.
Qed.

(* refresh re-arms the engine *)
Theorem clearer_clears f p c c' :
  mem f clearers = true -> exec (Call f p) c ONormal c' -> late_ok (fst c) -> aborted B M (fst c') = false.
Proof.
  intros Hc Hex Hl.
  assert (HG : Gflag 0 FU c) by (split; [exact Hl | exact I]).
  assert (Cp : flag_call resetters clearers quiet f p FU = Some (FC, FN))
    by (unfold flag_call; cbn; rewrite Hc; reflexivity).
  pose proof (flag_call_checked _ _ _ _ _ _ _ _ _ Hex Cp (FU_call_entry _ _ _ _ Cp) HG) as [_ P]. exact P.
Qed.

End Flag.
