(* Model side of the C05 streams (definitions only).

   stream "c05":  board-in -> [#accepted; accepted...; #generated; generated...]
     accepted  = the encodings 0..32767 accepted by is_pseudo_legal, ascending
     generated = gen_all b sorted ascending (duplicates kept)
   The accepted set is computed by [fast_accepted], which evaluates is_pseudo_legal only on encodings
   whose from-square holds a piece of the side to move and whose promotion bits are zero unless that
   piece is a pawn; Proofs/IplFast.v proves [fast_accepted b = filter (is_pseudo_legal b) all_encodings].

   stream "c05u": board-in ++ [len; bytes...] -> [ok; move; #generated; generated...]
     model of uci.parseUCIMove (byte arithmetic of Go's uint8 / int8 written out). *)
From Coq Require Import NArith ZArith List Bool.
From Chess3 Require Import Base.Bits Model.Types Model.Att Model.BoardDef Model.Board Model.Movegen Model.BoardStreams.
Import ListNotations.
Open Scope N_scope.

Definition promo_vals : list N := [0; 1; 2; 3; 4; 5; 6; 7].
Definition enc_row (pr from : N) : list N := map (fun to => mk_move from to pr) squares64.
Definition enc_tbl : list N := flat_map (fun pr => flat_map (enc_row pr) squares64) promo_vals.

(* may an encoding with this from-square and these promotion bits be accepted at all? *)
Definition worth (b : board) (pr from : N) : bool :=
  N.testbit (colors b (stm b)) from && ((pr =? 0) || (piece_at b from =? Pawn)).

Definition fast_accepted (b : board) : list N :=
  flat_map (fun pr => flat_map (fun from =>
    if worth b pr from then filter (is_pseudo_legal b) (enc_row pr from) else []) squares64) promo_vals.

Fixpoint insert_sorted (x : N) (l : list N) : list N :=
  match l with
  | [] => [x]
  | y :: r => if x <=? y then x :: l else y :: insert_sorted x r
  end.
Definition sort_moves (l : list N) : list N := fold_right insert_sorted [] l.

Definition run_c05 (l : list Z) : list Z :=
  match decode_board l with
  | Some (b, _) => zlist (fast_accepted b) ++ zlist (sort_moves (gen_all b))
  | None => []
  end.

(* ------------------------------------------------------------------------------------------ *)
(* uci.parseUCIMove.  Bytes are N below 256.
     from := Square((uciM[0] - 'a') + (uciM[1]-'1')*8)     uint8 arithmetic, then int8
     if from < A1 || from > H8 ... error                    i.e. the byte value must be below 64 *)
Definition byte_sub (a b : N) : N := N.land (a + 256 - b) 255.
Definition uci_square (c0 c1 : N) : N := N.land (byte_sub c0 97 + N.land (byte_sub c1 49 * 8) 255) 255.

Definition uci_promo (c : N) : option N :=
  if c =? 113 then Some Queen else if c =? 114 then Some Rook
  else if c =? 98 then Some Bishop else if c =? 110 then Some Knight else None.

Definition uci_gate (b : board) (from to promo : N) : option N :=
  if (from <? 64) && (to <? 64) then
    let m := N.lor (N.lor (N.shiftl from 6) to) (N.shiftl promo 12) in
    if is_pseudo_legal b m then Some m else None
  else None.

Definition parse_uci_move (b : board) (s : list N) : option N :=
  match s with
  | [c0; c1; c2; c3] => uci_gate b (uci_square c0 c1) (uci_square c2 c3) NoPiece
  | [c0; c1; c2; c3; c4] =>
      (* Go tests the squares before it looks at the promotion letter; both failures are the same error *)
      match uci_promo c4 with
      | Some p => uci_gate b (uci_square c0 c1) (uci_square c2 c3) p
      | None => None
      end
  | _ => None
  end.

Definition run_c05u (l : list Z) : list Z :=
  match decode_board l with
  | Some (b, n :: rest) =>
      let s := map (fun z => N.land (Z.to_N z) 255) (firstn (Z.to_nat n) rest) in
      (match parse_uci_move b s with
       | Some m => [1; Z.of_N m]
       | None => [0; 0]
       end)%Z ++ zlist (sort_moves (gen_all b))
  | _ => []
  end.
