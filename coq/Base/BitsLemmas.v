(* Larger developments on 64-bit words: bit deposit / extract along a mask (the enumeration of all
   subsets of a mask used by the C12 sweeps), bounded universal quantification by computation,
   bitboards as unions of single bits, and the loop view of bits_of. *)
From Coq Require Import NArith List Bool Lia.
From Chess3 Require Import Base.Bits.
Import ListNotations.
Open Scope N_scope.

(* ------------------------------------------------------------------------------------------ *)
(* forall i < n, f i  as a computation (counter kept in binary) *)
Fixpoint forall_from (k : nat) (i : N) (f : N -> bool) : bool :=
  match k with O => true | S k' => f i && forall_from k' (N.succ i) f end.
Definition forall_below (n : N) (f : N -> bool) : bool := forall_from (N.to_nat n) 0 f.

Lemma forall_from_spec k : forall i f, forall_from k i f = true ->
  forall j, i <= j -> j < i + N.of_nat k -> f j = true.
Proof.
  induction k as [|k IH]; intros i f H j Hl Hu.
  - lia.
  - cbn [forall_from] in H. apply andb_true_iff in H. destruct H as [H0 H1].
    destruct (N.eq_dec i j) as [<-|Hn]; [exact H0|].
    apply (IH (N.succ i) f H1); lia.
Qed.

Lemma forall_below_spec n f : forall_below n f = true -> forall j, j < n -> f j = true.
Proof.
  unfold forall_below. intros H j Hj. apply (forall_from_spec _ _ _ H); [lia|].
  rewrite N2Nat.id. lia.
Qed.

Lemma forall_from_intro k : forall i f, (forall j, i <= j -> j < i + N.of_nat k -> f j = true) -> forall_from k i f = true.
Proof.
  induction k as [|k IH]; intros i f H; [reflexivity|].
  cbn [forall_from]. apply andb_true_iff. split.
  - apply H; lia.
  - apply IH. intros j Hl Hu. apply H; lia.
Qed.

Lemma forall_below_intro n f : (forall j, j < n -> f j = true) -> forall_below n f = true.
Proof.
  intros H. apply forall_from_intro. intros j _ Hj. apply H. rewrite N2Nat.id in Hj. lia.
Qed.

(* ------------------------------------------------------------------------------------------ *)
(* bit deposit / extract along a mask, by structural recursion on the mask *)
Fixpoint pdep_p (i : N) (m : positive) : N :=
  match m with
  | xH => if N.odd i then 1 else 0
  | xO m' => N.double (pdep_p i m')
  | xI m' => (if N.odd i then 1 else 0) + N.double (pdep_p (N.div2 i) m')
  end.
Definition pdep (i m : N) : N := match m with N0 => 0 | Npos p => pdep_p i p end.

Fixpoint pext_p (x : N) (m : positive) : N :=
  match m with
  | xH => if N.odd x then 1 else 0
  | xO m' => pext_p (N.div2 x) m'
  | xI m' => (if N.odd x then 1 else 0) + N.double (pext_p (N.div2 x) m')
  end.
Definition pext (x m : N) : N := match m with N0 => 0 | Npos p => pext_p x p end.

Lemma odd_b2n_double (b : bool) (y : N) : N.odd ((if b then 1 else 0) + N.double y) = b.
Proof. destruct b, y as [|p]; cbn; try reflexivity. Qed.
Lemma div2_b2n_double (b : bool) (y : N) : N.div2 ((if b then 1 else 0) + N.double y) = y.
Proof. destruct b, y as [|p]; cbn; try reflexivity. Qed.

Lemma land_decomp x m :
  N.land x m = (if N.odd x && N.odd m then 1 else 0) + N.double (N.land (N.div2 x) (N.div2 m)).
Proof.
  apply N.bits_inj; intro n.
  destruct (N.eq_dec n 0) as [->|Hn].
  - rewrite N.land_spec, !N.bit0_odd. rewrite odd_b2n_double. reflexivity.
  - replace n with (N.succ (N.pred n)) by lia.
    rewrite N.land_spec.
    rewrite !N.testbit_succ_r_div2 by lia.
    rewrite div2_b2n_double. rewrite N.land_spec. reflexivity.
Qed.

Lemma pdep_pext_p m : forall x, pdep_p (pext_p x m) m = N.land x (Npos m).
Proof.
  induction m as [m IH|m IH|]; intros x; cbn [pdep_p pext_p].
  - rewrite odd_b2n_double, div2_b2n_double, IH.
    rewrite (land_decomp x (Npos m~1)). cbn [N.odd N.div2]. rewrite andb_true_r. reflexivity.
  - rewrite IH. rewrite (land_decomp x (Npos m~0)). cbn [N.odd N.div2]. rewrite andb_false_r. reflexivity.
  - rewrite (land_decomp x 1). cbn [N.odd N.div2]. rewrite andb_true_r, N.land_0_r.
    destruct (N.odd x) eqn:E; rewrite ?E; reflexivity.
Qed.

(* every subset of a mask is the deposit of its extract *)
Theorem pdep_pext x m : pdep (pext x m) m = N.land x m.
Proof. destruct m as [|p]; [cbn; now rewrite N.land_0_r | apply pdep_pext_p]. Qed.

Lemma b2n_double_lt (b : bool) (y k : N) : y < 2 ^ k -> (if b then 1 else 0) + N.double y < 2 ^ N.succ k.
Proof. intros H. rewrite N.pow_succ_r', N.double_spec. destruct b; lia. Qed.

Lemma pext_p_lt m : forall x, pext_p x m < 2 ^ popcount_p m.
Proof.
  induction m as [m IH|m IH|]; intros x; cbn [pext_p popcount_p].
  - apply b2n_double_lt. apply IH.
  - apply IH.
  - destruct (N.odd x); cbn; lia.
Qed.

(* ... and the extract is an index below 2^popcount *)
Theorem pext_lt x m : pext x m < 2 ^ popcount m.
Proof. destruct m as [|p]; [cbn; lia | apply pext_p_lt]. Qed.

(* the deposit is a subset of the mask *)
Lemma pdep_p_subset m : forall i, N.land (pdep_p i m) (Npos m) = pdep_p i m.
Proof.
  induction m as [m IH|m IH|]; intros i; cbn [pdep_p].
  - rewrite (land_decomp _ (Npos m~1)). rewrite odd_b2n_double, div2_b2n_double. cbn [N.odd N.div2].
    rewrite andb_true_r, IH. reflexivity.
  - rewrite (land_decomp _ (Npos m~0)). cbn [N.odd N.div2]. rewrite andb_false_r.
    change (N.double (pdep_p i m)) with ((if false then 1 else 0) + N.double (pdep_p i m)) at 1.
    rewrite div2_b2n_double, IH. reflexivity.
  - destruct (N.odd i); reflexivity.
Qed.

Theorem pdep_subset i m : N.land (pdep i m) m = pdep i m.
Proof. destruct m as [|p]; [reflexivity | apply pdep_p_subset]. Qed.

(* ------------------------------------------------------------------------------------------ *)
(* a bitboard is the union of its single bits; operations that distribute over union are
   determined by their values on single bits *)
Definition union_bits (f : N -> N) (l : list N) : N := fold_right (fun s acc => N.lor (f s) acc) 0 l.

Lemma union_bits_testbit f l i :
  N.testbit (union_bits f l) i = existsb (fun s => N.testbit (f s) i) l.
Proof.
  induction l as [|s r IH]; cbn [union_bits fold_right existsb]; [apply N.bits_0|].
  rewrite N.lor_spec. fold (union_bits f r). rewrite IH. reflexivity.
Qed.

Lemma bits_of_union b : union_bits bit (bits_of b) = b.
Proof.
  apply N.bits_inj; intro i. rewrite union_bits_testbit.
  destruct (N.testbit b i) eqn:E.
  - apply existsb_exists. exists i. split; [apply bits_of_spec; exact E|].
    rewrite bit_testbit. apply N.eqb_refl.
  - destruct (existsb (fun s => N.testbit (bit s) i) (bits_of b)) eqn:X; [|reflexivity].
    apply existsb_exists in X. destruct X as [s [Hs Hb]]. rewrite bit_testbit in Hb.
    apply N.eqb_eq in Hb. subst s. apply bits_of_spec in Hs. congruence.
Qed.

Lemma union_bits_ext f g l : (forall s, In s l -> f s = g s) -> union_bits f l = union_bits g l.
Proof.
  induction l as [|s r IH]; intros H; [reflexivity|].
  cbn [union_bits fold_right]. fold (union_bits f r) (union_bits g r).
  rewrite (H s) by (left; reflexivity). rewrite IH; [reflexivity|].
  intros t Ht. apply H. right. exact Ht.
Qed.

Definition distributes (f : N -> N) : Prop := f 0 = 0 /\ forall x y, f (N.lor x y) = N.lor (f x) (f y).

Lemma distributes_union f g l : distributes f -> f (union_bits g l) = union_bits (fun s => f (g s)) l.
Proof.
  intros [H0 Hor]. induction l as [|s r IH]; cbn [union_bits fold_right]; [exact H0|].
  fold (union_bits g r) (union_bits (fun s => f (g s)) r). rewrite Hor, IH. reflexivity.
Qed.

(* f b = union of f (bit s) over the squares s of b *)
Lemma distributes_bits f b : distributes f -> f b = union_bits (fun s => f (bit s)) (bits_of b).
Proof. intros H. rewrite <- (bits_of_union b) at 1. apply distributes_union. exact H. Qed.

Lemma distributes_compose f g : distributes f -> distributes g -> distributes (fun x => f (g x)).
Proof. intros [F0 F] [G0 G]. split; [rewrite G0; exact F0|]. intros x y. rewrite G, F. reflexivity. Qed.

Lemma distributes_lor f g : distributes f -> distributes g -> distributes (fun x => N.lor (f x) (g x)).
Proof.
  intros [F0 F] [G0 G]. split; [rewrite F0, G0; reflexivity|]. intros x y. rewrite F, G.
  apply N.bits_inj; intro i. rewrite !N.lor_spec.
  destruct (N.testbit (f x) i), (N.testbit (f y) i), (N.testbit (g x) i), (N.testbit (g y) i); reflexivity.
Qed.

Lemma distributes_shl k : distributes (fun x => shl x k).
Proof.
  unfold shl, w64. split; [rewrite N.shiftl_0_l; reflexivity|]. intros x y.
  rewrite N.shiftl_lor. apply N.land_lor_distr_l.
Qed.

Lemma distributes_shr k : distributes (fun x => shr x k).
Proof. unfold shr. split; [apply N.shiftr_0_l|]. intros x y. apply N.shiftr_lor. Qed.

Lemma distributes_band m : distributes (fun x => band x m).
Proof. unfold band. split; [reflexivity|]. intros x y. apply N.land_lor_distr_l. Qed.

Lemma distributes_bandn m : distributes (fun x => bandn x m).
Proof.
  unfold bandn. split; [reflexivity|]. intros x y.
  apply N.bits_inj; intro i. rewrite N.lor_spec, !N.ldiff_spec, N.lor_spec.
  destruct (N.testbit x i), (N.testbit y i), (N.testbit m i); reflexivity.
Qed.

(* ------------------------------------------------------------------------------------------ *)
(* bits_of is strictly ascending; the Go loop view
     for bb != 0 { sq := bb.LowestSet(); ...; bb &= bb - 1 }                                   *)
From Coq Require Import Sorting.Sorted.

Lemma bits_pos_sorted p : forall i, StronglySorted N.lt (bits_pos p i).
Proof.
  induction p as [q IH|q IH|]; intros i; cbn [bits_pos].
  - constructor; [apply IH|]. apply Forall_forall. intros s Hs. apply bits_pos_lb in Hs. lia.
  - apply IH.
  - constructor; constructor.
Qed.

Lemma bits_of_sorted b : StronglySorted N.lt (bits_of b).
Proof. destruct b as [|p]; [constructor|apply bits_pos_sorted]. Qed.

Lemma bits_of_Sorted b : Sorted N.lt (bits_of b).
Proof. apply StronglySorted_Sorted, bits_of_sorted. Qed.

(* strictly ascending lists with the same elements are equal *)
Lemma sorted_ext (l1 : list N) : forall l2, StronglySorted N.lt l1 -> StronglySorted N.lt l2 ->
  (forall s, In s l1 <-> In s l2) -> l1 = l2.
Proof.
  induction l1 as [|a r IH]; intros l2 S1 S2 H.
  - destruct l2 as [|b r2]; [reflexivity|]. exfalso. apply (proj2 (H b)). left; reflexivity.
  - destruct l2 as [|b r2]; [exfalso; apply (proj1 (H a)); left; reflexivity|].
    inversion S1 as [|? ? S1r F1]; inversion S2 as [|? ? S2r F2]; subst.
    rewrite Forall_forall in F1, F2.
    assert (a = b) as <-.
    { destruct (proj1 (H a) (or_introl eq_refl)) as [E|E]; [auto|].
      destruct (proj2 (H b) (or_introl eq_refl)) as [E2|E2]; [auto|].
      specialize (F1 _ E2). specialize (F2 _ E). lia. }
    f_equal. apply IH; [assumption|assumption|]. intros s. split; intros Hs.
    + destruct (proj1 (H s) (or_intror Hs)) as [E|E]; [|exact E]. subst s. specialize (F1 _ Hs). lia.
    + destruct (proj2 (H s) (or_intror Hs)) as [E|E]; [|exact E]. subst s. specialize (F2 _ Hs). lia.
Qed.

Theorem bits_of_loop b : b <> 0 -> bits_of b = lsb b :: bits_of (clear_lsb b).
Proof.
  intros H. apply sorted_ext.
  - apply bits_of_sorted.
  - constructor; [apply bits_of_sorted|]. apply Forall_forall. intros s Hs.
    apply bits_of_spec in Hs. rewrite clear_lsb_spec in Hs by exact H.
    apply andb_true_iff in Hs. destruct Hs as [Hb Hne].
    destruct (N.lt_trichotomy (lsb b) s) as [L|[E|G]]; [exact L| |].
    + rewrite E, N.eqb_refl in Hne. discriminate.
    + rewrite (lsb_lowest b s G) in Hb. discriminate.
  - intros s. cbn [In]. rewrite !bits_of_spec. rewrite clear_lsb_spec by exact H. split.
    + intros Hs. destruct (N.eqb_spec (lsb b) s) as [E|E]; [left; exact E|right]. rewrite Hs. reflexivity.
    + intros [E|Hs]; [subst; apply lsb_testbit; exact H|]. apply andb_true_iff in Hs. tauto.
Qed.

Lemma bits_of_0 : bits_of 0 = [].
Proof. reflexivity. Qed.

Lemma bits_of_bit s : bits_of (bit s) = [s].
Proof.
  apply sorted_ext; [apply bits_of_sorted|repeat constructor|].
  intros t. rewrite bits_of_spec, bit_testbit. cbn [In]. split.
  - intros E. apply N.eqb_eq in E. left. exact E.
  - intros [E|[]]. apply N.eqb_eq. exact E.
Qed.

(* quantifiers and folds over the squares of a bitboard *)
Lemma existsb_bits_of P b : existsb P (bits_of b) = true <-> exists s, N.testbit b s = true /\ P s = true.
Proof.
  rewrite existsb_exists. split; intros [s [H1 H2]]; exists s; split; try assumption; apply bits_of_spec; exact H1.
Qed.

Lemma forallb_bits_of P b : forallb P (bits_of b) = true <-> forall s, N.testbit b s = true -> P s = true.
Proof.
  rewrite forallb_forall. split; intros H s Hs; apply H; apply bits_of_spec; exact Hs.
Qed.

Lemma fold_left_bits_loop {A} (f : A -> N -> A) b a : b <> 0 ->
  fold_left f (bits_of b) a = fold_left f (bits_of (clear_lsb b)) (f a (lsb b)).
Proof. intros H. rewrite (bits_of_loop b H). reflexivity. Qed.

Lemma range_in n s : s < N.of_nat n -> In s (map N.of_nat (seq 0 n)).
Proof.
  intros H. apply in_map_iff. exists (N.to_nat s). split; [apply N2Nat.id|]. apply in_seq. lia.
Qed.

Lemma bits_of_length b : b < two64 -> (length (bits_of b) <= 64)%nat.
Proof.
  intros H.
  assert (L : length (map N.of_nat (seq 0 64)) = 64%nat) by (rewrite map_length, seq_length; reflexivity).
  rewrite <- L. apply NoDup_incl_length; [apply bits_of_NoDup|].
  intros s Hs. apply range_in. change (N.of_nat 64) with 64. exact (bits_of_lt b s H Hs).
Qed.

Lemma popcount_le_64 b : b < two64 -> popcount b <= 64.
Proof. intros H. rewrite popcount_bits_of. pose proof (bits_of_length b H). lia. Qed.

(* the Go loop itself, with fuel: for ; b != 0; b &= b - 1 { a = f(a, b.LowestSet()) } *)
Fixpoint bb_iter {A} (fuel : nat) (f : A -> N -> A) (b : N) (a : A) : A :=
  match fuel with
  | O => a
  | S k => if b =? 0 then a else bb_iter k f (clear_lsb b) (f a (lsb b))
  end.

Lemma bb_iter_fold {A} fuel : forall (f : A -> N -> A) b a,
  (length (bits_of b) <= fuel)%nat -> bb_iter fuel f b a = fold_left f (bits_of b) a.
Proof.
  induction fuel as [|k IH]; intros f b a H.
  - destruct (bits_of b) as [|x l] eqn:E; [reflexivity|cbn [length] in H; lia].
  - cbn [bb_iter]. destruct (N.eqb_spec b 0) as [->|Hn]; [reflexivity|].
    rewrite (bits_of_loop b Hn) in H |- *. cbn [fold_left]. apply IH. cbn [length] in H. lia.
Qed.

Lemma bb_iter_64 {A} (f : A -> N -> A) b a : b < two64 -> bb_iter 64 f b a = fold_left f (bits_of b) a.
Proof. intros H. apply bb_iter_fold. apply bits_of_length. exact H. Qed.

(* ------------------------------------------------------------------------------------------ *)
(* popcount: inclusion-exclusion, additivity on disjoint sets *)
Lemma popcount_lor_land_pos p : forall q,
  popcount (N.pos (Pos.lor p q)) + popcount (Pos.land p q) = popcount_p p + popcount_p q.
Proof.
  induction p as [p IH|p IH|]; intros [q|q|]; cbn [Pos.lor Pos.land popcount popcount_p];
    try (specialize (IH q); destruct (Pos.land p q); cbn [popcount Pos.Ndouble Pos.Nsucc_double popcount_p] in *; lia);
    try lia.
Qed.

Theorem popcount_lor_land x y : popcount (N.lor x y) + popcount (N.land x y) = popcount x + popcount y.
Proof.
  destruct x as [|p], y as [|q]; cbn [N.lor N.land popcount]; try lia. apply popcount_lor_land_pos.
Qed.

Theorem popcount_disjoint x y : N.land x y = 0 -> popcount (N.lor x y) = popcount x + popcount y.
Proof. intros H. pose proof (popcount_lor_land x y) as E. rewrite H in E. cbn [popcount] in E. lia. Qed.

Lemma popcount_bit s : popcount (bit s) = 1.
Proof. rewrite popcount_bits_of, bits_of_bit. reflexivity. Qed.

Lemma popcount_clear_lsb b : b <> 0 -> popcount b = N.succ (popcount (clear_lsb b)).
Proof. intros H. rewrite !popcount_bits_of, (bits_of_loop b H). cbn [length]. lia. Qed.

(* ------------------------------------------------------------------------------------------ *)
(* Go's b & -b isolates the lowest set bit *)
Lemma neg64_bnot_pred x : 0 < x -> x < two64 -> neg64 x = N.lxor (N.pred x) ones64.
Proof.
  intros H0 H. rewrite neg64_spec by assumption.
  assert (L : N.log2 (N.pred x) < 64).
  { destruct (N.eq_dec (N.pred x) 0) as [->|Hn]; [reflexivity|].
    apply N.log2_lt_pow2; [lia|]. change (2 ^ 64) with two64. lia. }
  pose proof (N.add_lnot_diag_low (N.pred x) 64 L) as E. unfold N.lnot in E.
  rewrite ones64_eq. change (N.ones 64) with 18446744073709551615 in *. unfold two64. lia.
Qed.

Theorem isolate_lsb_spec x : x <> 0 -> x < two64 -> band x (neg64 x) = bit (lsb x).
Proof.
  intros H0 H. rewrite neg64_bnot_pred by (try lia; exact H).
  apply N.bits_inj; intro i. unfold band. rewrite N.land_spec, N.lxor_spec, ones64_testbit, bit_testbit.
  pose proof (clear_lsb_spec x i H0) as C. unfold clear_lsb in C. rewrite N.land_spec in C.
  destruct (N.testbit x i) eqn:X.
  - cbn [andb] in C |- *. rewrite C.
    destruct (N.ltb_spec i 64) as [L|L]; [|rewrite (lt_two64_testbit x H i L) in X; discriminate].
    destruct (lsb x =? i); reflexivity.
  - cbn [andb]. symmetry. apply N.eqb_neq. intros E. subst i. rewrite (lsb_testbit x H0) in X. discriminate.
Qed.

(* ------------------------------------------------------------------------------------------ *)
(* bb_pointwise: a bitboard identity as per-bit boolean goals.

     bb_pointwise          x = y  ~>  one goal about an arbitrary bit index i, with testbit pushed
                           through every word operation (rewrite database bb);
     bb_pointwise64        x = y (both provably below 2^64)  ~>  the same goal with i < 64 known;
     bb_cases i Hi         splits a goal about i (with Hi : i < 64) into the 64 concrete cases;
     bb_decide             closes a per-bit goal whose only unknowns are bits of variables, by
                           computation and case analysis on those bits. *)
Lemma bits_inj_64 x y : x < two64 -> y < two64 ->
  (forall i, i < 64 -> N.testbit x i = N.testbit y i) -> x = y.
Proof.
  intros Hx Hy H. apply N.bits_inj; intro i. destruct (N.lt_ge_cases i 64) as [L|L]; [apply H; exact L|].
  rewrite (lt_two64_testbit x Hx i L), (lt_two64_testbit y Hy i L). reflexivity.
Qed.

Definition range64 : list N :=
  [0; 1; 2; 3; 4; 5; 6; 7; 8; 9; 10; 11; 12; 13; 14; 15; 16; 17; 18; 19; 20; 21; 22; 23; 24; 25; 26; 27; 28; 29; 30; 31;
   32; 33; 34; 35; 36; 37; 38; 39; 40; 41; 42; 43; 44; 45; 46; 47; 48; 49; 50; 51; 52; 53; 54; 55; 56; 57; 58; 59; 60; 61; 62; 63].

Lemma range64_complete i : i < 64 -> In i range64.
Proof.
  intros H.
  assert (C : forall_below 64 (fun s => existsb (N.eqb s) range64) = true) by (vm_compute; reflexivity).
  pose proof (forall_below_spec _ _ C i H) as E. cbv beta in E.
  apply existsb_exists in E. destruct E as [x [Hx Heq]]. apply N.eqb_eq in Heq. subst x. exact Hx.
Qed.

Lemma lt64_Forall (P : N -> Prop) : Forall P range64 -> forall i, i < 64 -> P i.
Proof. intros F i H. rewrite Forall_forall in F. apply F. apply range64_complete. exact H. Qed.

Global Hint Rewrite band_testbit bor_testbit bxor_testbit bandn_testbit bnot_testbit shl_testbit shr_testbit
  bit_testbit setb_testbit clrb_testbit w64_testbit ones64_testbit
  N.land_spec N.lor_spec N.lxor_spec N.ldiff_spec N.bits_0 : bb.

Ltac bb_w64p :=
  repeat first
    [ assumption | apply w64_lt | apply shl_w64p | apply bnot_w64p | apply add64_w64p | apply sub64_w64p
    | apply mul64_w64p | apply neg64_w64p | apply bor_w64p | apply bxor_w64p | apply bandn_w64p
    | apply shr_w64p | apply bit_lt | apply clear_lsb_w64p | apply band_w64p_l; bb_w64p; fail
    | apply band_w64p_r | (unfold w64p; vm_compute; reflexivity) | (vm_compute; reflexivity) ].

Ltac bb_pointwise :=
  apply N.bits_inj; let i := fresh "i" in intro i; autorewrite with bb.

Ltac bb_pointwise64 :=
  apply bits_inj_64;
  [ try solve [bb_w64p] | try solve [bb_w64p]
  | let i := fresh "i" in let Hi := fresh "Hi" in
    intros i Hi; autorewrite with bb; rewrite ?(proj2 (N.ltb_lt i 64) Hi) ].

Ltac bb_cases i Hi :=
  revert i Hi; apply lt64_Forall; unfold range64;
  repeat (apply Forall_cons; [|]); [..|apply Forall_nil]; intros.

Ltac bb_abstract :=
  repeat match goal with
         | |- context [N.testbit ?b ?k] => is_var b; let v := fresh "t" in set (v := N.testbit b k) in *; clearbody v
         end.
Ltac bb_decide :=
  bb_abstract; vm_compute;
  repeat match goal with v : bool |- _ => destruct v end; reflexivity.

(* usage examples (also the regression tests of the tactics) *)
Example bb_example_distr x y z : band (bor x y) z = bor (band x z) (band y z).
Proof. bb_pointwise. destruct (N.testbit x i), (N.testbit y i), (N.testbit z i); reflexivity. Qed.

Example bb_example_bnot x : x < two64 -> bnot (bnot x) = x.
Proof. intros H. bb_pointwise64. destruct (N.testbit x i); reflexivity. Qed.

(* a shift against a file mask: moving a set one file to the east *)
Example bb_example_east b : shl (bandn b HFileBB) 1 = bandn (shl b 1) AFileBB.
Proof.
  apply bits_inj_64; [bb_w64p | bb_w64p |]. intros i Hi. autorewrite with bb.
  bb_cases i Hi; bb_decide.
Qed.

(* ------------------------------------------------------------------------------------------ *)
(* shifts of a single square: square arithmetic *)
Lemma shl_bit s k : s + k < 64 -> shl (bit s) k = bit (s + k).
Proof.
  intros H. apply N.bits_inj; intro i. rewrite shl_testbit, !bit_testbit.
  destruct (N.ltb_spec i 64) as [L|L]; destruct (N.leb_spec k i) as [K|K]; cbn [andb];
    destruct (N.eqb_spec s (i - k)) as [E|E]; destruct (N.eqb_spec (s + k) i) as [F|F]; try reflexivity; lia.
Qed.

Lemma shl_bit_out s k : 64 <= s + k -> shl (bit s) k = 0.
Proof.
  intros H. apply N.bits_inj; intro i. rewrite shl_testbit, bit_testbit, N.bits_0.
  destruct (N.ltb_spec i 64) as [L|L]; destruct (N.leb_spec k i) as [K|K]; cbn [andb]; try reflexivity.
  apply N.eqb_neq. lia.
Qed.

Lemma shr_bit s k : k <= s -> shr (bit s) k = bit (s - k).
Proof.
  intros H. apply N.bits_inj; intro i. rewrite shr_testbit, !bit_testbit.
  destruct (N.eqb_spec s (i + k)) as [E|E]; destruct (N.eqb_spec (s - k) i) as [F|F]; try reflexivity; lia.
Qed.

Lemma shr_bit_out s k : s < k -> shr (bit s) k = 0.
Proof.
  intros H. apply N.bits_inj; intro i. rewrite shr_testbit, bit_testbit, N.bits_0. apply N.eqb_neq. lia.
Qed.

Lemma bit_inj s t : bit s = bit t -> s = t.
Proof.
  intros H. assert (E : N.testbit (bit s) t = N.testbit (bit t) t) by (rewrite H; reflexivity).
  rewrite !bit_testbit, N.eqb_refl in E. apply N.eqb_eq. exact E.
Qed.

Lemma bit_neq_0 s : bit s <> 0.
Proof.
  intros H. assert (E : N.testbit (bit s) s = N.testbit 0 s) by (rewrite H; reflexivity).
  rewrite bit_testbit, N.eqb_refl, N.bits_0 in E. discriminate.
Qed.

Lemma lsb_bit s : lsb (bit s) = s.
Proof.
  pose proof (bits_of_loop (bit s) (bit_neq_0 s)) as E. rewrite bits_of_bit in E.
  injection E as E _. symmetry. exact E.
Qed.

Lemma band_bit_testbit x s : (band x (bit s) =? 0) = negb (N.testbit x s).
Proof.
  destruct (N.testbit x s) eqn:T; cbn [negb].
  - apply N.eqb_neq. intros H.
    assert (E : N.testbit (band x (bit s)) s = N.testbit 0 s) by (rewrite H; reflexivity).
    rewrite band_testbit, bit_testbit, N.eqb_refl, T, N.bits_0 in E. discriminate.
  - apply N.eqb_eq. apply N.bits_inj_0; intro i. rewrite band_testbit, bit_testbit.
    destruct (N.eqb_spec s i) as [<-|]; [rewrite T; reflexivity|apply andb_false_r].
Qed.
