(* C12 finite sweep, shard R4: by vm_compute, for each listed square, over EVERY subset of its
   relevant-occupancy mask (see Proofs/AttacksSweepDefs.v for what is checked). Re-checked whenever
   Gen/AttackTables.v (masks, magics, shifts read from the working tree) changes. *)
From Coq Require Import NArith List Bool.
From Chess3 Require Import Proofs.AttacksSweepDefs.
Import ListNotations.
Open Scope N_scope.
Definition rook_squares_4 : list N := [4; 13; 22; 31; 32; 41; 50; 59].
Lemma rook_sweep_4 : forallb rook_sweep_sq rook_squares_4 = true.
Proof. vm_cast_no_check (@eq_refl bool true). Qed.
