package streams

import (
	"bytes"
	"fmt"
	"strconv"
	"strings"

	"github.com/paulsonkoly/chess-3/board"
	. "github.com/paulsonkoly/chess-3/chess"
	"github.com/paulsonkoly/chess-3/move"
	"github.com/paulsonkoly/chess-3/search"
	"github.com/paulsonkoly/chess-3/tools/tuner/epd"
	"github.com/paulsonkoly/chess-3/uci"

	"verifharness/hx"
	"verifharness/posgen"
)

// C11 streams (model side: coq/Model/FenStreams.v, judges: coq/Spec/FenSpec.v)
//
//	c11rt   board-in -> tlen text.. gate cls [board-out t2flag]
//	c11str  n s_1..s_n t_1..t_5 -> cls [board-out] epdcls [res2 board-out-nohist]
//	c11uci  flag n (tokensA 257 tokensB; tokens separated by 256)
//	        -> codeA codeB board-out(after A) board-out(after A then B) tlen text..
func init() {
	hx.Register(&hx.Stream{Name: "c11rt", Gen: genC11rt, Run: runC11rt})
	hx.Register(&hx.Stream{Name: "c11str", Gen: genC11str, Run: runC11str})
	hx.Register(&hx.Stream{Name: "c11uci", Gen: genC11uci, Run: runC11uci})
}

// fenErrClass maps the parser's error to the check that fired (coq/Model/Fen.v ferr).
func fenErrClass(err error) int {
	msg := err.Error()
	switch {
	case msg == "premature end of fen":
		return 1
	case msg == "invalid position":
		return 2
	case strings.HasPrefix(msg, "invalid char"):
		return 3
	case strings.HasPrefix(msg, "w or b expected"):
		return 4
	case strings.HasPrefix(msg, "expecting K, Q, k, q or -"):
		return 5
	case strings.HasPrefix(msg, "square expected"):
		return 6
	case strings.HasPrefix(msg, "digit expected"):
		return 7
	case strings.HasPrefix(msg, "fifty move count out of range"):
		return 8
	case strings.HasPrefix(msg, "full move count out of range"):
		return 9
	}
	return 99
}

// ---------------------------------------------------------------------------------------------
// c11rt

func runC11rt(a hx.Args) string {
	b, _ := a.Board(0)
	text := b.FEN()
	out := (&hx.Nums{}).Int(len(text)).Bytes([]byte(text)).B(b.InvalidPieceCount())
	p, err := board.FromFEN(text)
	if err != nil {
		return out.Int(fenErrClass(err)).String()
	}
	return out.Int(0).BoardOut(p).B(p.FEN() == text).String()
}

// maximal promoted material and other hand-made placements for the round trip and the gate
var c11Roots = []string{
	"QQQQQQQQ/Q7/8/8/8/8/7k/K7 w - - 0 1",                        // 9 queens
	"qqqqqqqq/q7/8/8/8/8/7K/k7 b - - 0 1",                        // 9 black queens
	"RRRRRRRR/RR6/8/8/8/8/7k/K7 w - - 0 1",                       // 10 rooks
	"rrrrrrrr/rr6/8/8/8/8/7K/k7 b - - 0 1",                       // 10 black rooks
	"BBBBBBBB/BB6/8/8/8/8/8/K6k w - - 0 1",                       // 10 bishops
	"bbbbbbbb/bb6/8/8/8/8/8/k6K b - - 0 1",                       // 10 black bishops
	"NNNNNNNN/NN6/8/8/8/8/8/K6k w - - 0 1",                       // 10 knights
	"nnnnnnnn/nn6/8/8/8/8/8/k6K b - - 0 1",                       // 10 black knights
	"QQQRRRBB/BNNN4/8/8/8/7k/8/K7 w - - 0 1",                     // 2+1+1+1 = ... mixed: 8 promoted in total
	"QQQQQRRB/BNN5/PPP5/8/8/7k/8/K7 w - - 0 1",                   // 4 promoted queens + 3 pawns + ... = 8
	"qqqqqqqq/q6k/8/8/8/8/Q6K/QQQQQQQQ w - - 0 1",                // 9 queens each
	"rnbqkbnr/pppppppp/8/8/8/8/PPPPPPPP/RNBQKBNR w KQkq - 100 1", // clock at the bound
	"8/8/8/8/8/8/8/8 w - - 0 1",                                  // the empty board of the test-suite
	"k7/8/8/8/8/8/8/7K w - - 0 9223372036854775807",              // fullmove number = max int
}

// c11RootsBoth returns the hand-made FENs with either side to move.
func c11RootsBoth() []string {
	var out []string
	for _, f := range c11Roots {
		out = append(out, f)
		if strings.Contains(f, " w ") {
			out = append(out, strings.Replace(f, " w ", " b ", 1))
		} else {
			out = append(out, strings.Replace(f, " b ", " w ", 1))
		}
	}
	return out
}

func c11rtCase(b *board.Board, desc string, tags []string) hx.Input {
	t := append([]string{}, tags...)
	switch {
	case b.FiftyCnt > 100:
		t = append(t, "clock>100")
	case b.FiftyCnt == 100:
		t = append(t, "clock=100")
	case b.FiftyCnt < 0:
		t = append(t, "clock<0")
	default:
		t = append(t, "clock<100")
	}
	fm := b.VerifFullMoves()
	switch {
	case fm < 1:
		t = append(t, "full<1")
	case fm > 1<<31:
		t = append(t, "full>2^31")
	}
	return hx.Input{In: (&hx.Nums{}).BoardIn(b).String(),
		Desc: fmt.Sprintf("clock=%d full=%d fen=%q <= %s", b.FiftyCnt, fm, b.FEN(), desc),
		Tags: t, NonTrivial: true, Key: b.FEN()}
}

var bigFulls = []int{1, 2, 9, 10, 99, 100, 1000, 65535, 65536, 1<<31 - 1, 1 << 31, 1 << 32, 1<<62 - 1, 1 << 62,
	1<<63 - 1, 999999999999999999, 1000000000000000000, 9223372036854775799, 9223372036854775800}

func genC11rt(rng *hx.Rng, n int, tier string, emit func(hx.Input)) {
	cnt := 0
	for _, f := range c11RootsBoth() {
		b, err := board.FromFEN(f)
		if err != nil {
			continue
		}
		tags := []string{"hand"}
		if posgen.Valid(b) {
			tags = append(tags, "hand-valid")
		}
		emit(c11rtCase(b, "hand fen "+f, append(tags, posgen.Tags(b)...)))
		cnt++
	}
	for cnt < n {
		posgen.Stream(rng, 50, func(p posgen.Pos) {
			if cnt >= n {
				return
			}
			s := p.B.VerifSnapshot()
			desc := p.Desc()
			x := rng.Intn(100)
			switch {
			case x < 20: // any clock value up to 150 (play reaches them: the clock is only reset by pawn moves and captures)
				s.FiftyCnt = rng.Intn(151)
				desc += fmt.Sprintf(" [clock set to %d]", s.FiftyCnt)
			case x < 28:
				s.FiftyCnt = []int{99, 100, 101, 102, 127, 128, 150, 255, 256, 1000, 32767}[rng.Intn(11)]
				desc += fmt.Sprintf(" [clock set to %d]", s.FiftyCnt)
			case x < 40:
				s.FullMoves = bigFulls[rng.Intn(len(bigFulls))]
				desc += fmt.Sprintf(" [fullmoves set to %d]", s.FullMoves)
			case x < 45:
				s.FullMoves = 1 + int(rng.U64()>>uint(1+rng.Intn(62)))
				desc += fmt.Sprintf(" [fullmoves set to %d]", s.FullMoves)
			case x < 47: // outside the domain of the theorem, inside the correspondence
				s.FullMoves = []int{0, -1, -9223372036854775808, -77}[rng.Intn(4)]
				desc += fmt.Sprintf(" [fullmoves set to %d]", s.FullMoves)
			case x < 49:
				s.FiftyCnt = []int{-1, -32768, -100}[rng.Intn(3)]
				desc += fmt.Sprintf(" [clock set to %d]", s.FiftyCnt)
			}
			b := board.VerifRestore(s)
			emit(c11rtCase(b, desc, append(posgen.Tags(p.B), p.Kind)))
			cnt++
		})
	}
}

// ---------------------------------------------------------------------------------------------
// c11str

func runC11str(a hx.Args) string {
	n := a.Int(1)
	s := a.Bytes(2, 2+n)
	line := a.Bytes(2, a.Len())
	out := &hx.Nums{}
	b, err := board.FromFEN(string(s))
	if err != nil {
		out.Int(fenErrClass(err))
	} else {
		text := b.FEN()
		out.Int(0).BoardOut(b).Int(len(text)).Bytes([]byte(text))
	}
	var eb board.Board
	var res float64
	if err := epd.Parse(line, &eb, &res); err != nil {
		out.Int(1)
	} else {
		out.Int(0).Int(int(res * 2)).BoardOutNoHist(&eb)
	}
	return out.String()
}

var epdSuffixes = []string{"; 1.0", "; 1.0", "; 1.0", "; 0.5", "; 0.0"}

// specFEN prints a snapshot as a canonical FEN. It is the harness's own printer (independent of
// Board.FEN()): ranks 8..1, run-length digits, side, rights in the order KQkq, target square, counters.
func specFEN(s board.VerifSnap) string {
	var sb strings.Builder
	for r := 7; r >= 0; r-- {
		empty := 0
		for f := 0; f < 8; f++ {
			sq := r*8 + f
			p := s.SquaresToPiece[sq]
			if p == NoPiece {
				empty++
				continue
			}
			if empty > 0 {
				sb.WriteString(strconv.Itoa(empty))
				empty = 0
			}
			c := " pnbrqk"[p]
			if s.Colors[White]&(1<<uint(sq)) != 0 {
				c -= 32
			}
			sb.WriteByte(c)
		}
		if empty > 0 {
			sb.WriteString(strconv.Itoa(empty))
		}
		if r > 0 {
			sb.WriteByte('/')
		}
	}
	sb.WriteString([]string{" w ", " b "}[s.STM])
	cs := ""
	for i, ch := range "KQkq" {
		if s.Castles&(1<<uint(i)) != 0 {
			cs += string(ch)
		}
	}
	if cs == "" {
		cs = "-"
	}
	sb.WriteString(cs + " ")
	if s.EnPassant == 0 {
		sb.WriteString("-")
	} else {
		sb.WriteByte(byte('a' + int(s.EnPassant)%8))
		sb.WriteByte(byte('1' + int(s.EnPassant)/8))
	}
	sb.WriteString(" " + strconv.Itoa(s.FiftyCnt) + " " + strconv.Itoa(s.FullMoves))
	return sb.String()
}

func c11strCase(rng *hx.Rng, s []byte, kind string) hx.Input {
	suffix := []byte(epdSuffixes[rng.Intn(len(epdSuffixes))])
	if rng.Chance(0.05) {
		suffix = []byte{byte(rng.Intn(256)), ' ', '1', '.', byte(rng.Intn(256))}
	}
	in := (&hx.Nums{}).B(kind == "canonical-spec").Int(len(s)).Bytes(s).Bytes(suffix)
	tags := []string{kind}
	_, err := func() (b *board.Board, err error) {
		defer func() {
			if r := recover(); r != nil {
				err = fmt.Errorf("panic")
			}
		}()
		return board.FromFEN(string(s))
	}()
	if err == nil {
		tags = append(tags, "accepted")
	} else if err.Error() == "panic" {
		tags = append(tags, "panic")
	} else {
		tags = append(tags, fmt.Sprintf("err%d", fenErrClass(err)))
	}
	return hx.Input{In: in.String(), Desc: fmt.Sprintf("%s fen=%q suffix=%q", kind, s, suffix), Tags: tags, NonTrivial: true}
}

var hugeNumbers = []string{"0", "1", "00", "01", "100", "101", "0100", "99", "127", "128", "255", "256", "32767", "32768", "65536",
	"2147483647", "2147483648", "4294967296", "4294967297", "9223372036854775807", "9223372036854775808",
	"9223372036854775809", "18446744073709551615", "18446744073709551616", "18446744073709551617",
	"18446744073709551716", "36893488147419103232", "36893488147419103233", "99999999999999999999",
	"99999999999999999999999999999999999999", "00000000000000000000000000000000000000000000000001",
	"340282366920938463463374607431768211457", "-1", "-0", "+1", "1e3", "0x10", "1.0", "१"}

var interestingBytes = []byte(" /-0123456789wbKQkqabcdefghipPnNrRxz\x00\x7f\x80\xff\t\n;")

// mutateFEN returns one mutation of a canonical FEN.
func mutateFEN(rng *hx.Rng, fen string) ([]byte, string) {
	s := []byte(fen)
	fields := strings.Fields(fen)
	rb := func() byte {
		if rng.Bool() {
			return interestingBytes[rng.Intn(len(interestingBytes))]
		}
		return byte(rng.Intn(256))
	}
	switch rng.Intn(16) {
	case 0: // replace one byte
		if len(s) > 0 {
			s[rng.Intn(len(s))] = rb()
		}
		return s, "byte-replace"
	case 1: // flip one bit
		if len(s) > 0 {
			s[rng.Intn(len(s))] ^= 1 << uint(rng.Intn(8))
		}
		return s, "bit-flip"
	case 2: // delete one byte
		if len(s) > 0 {
			i := rng.Intn(len(s))
			s = append(s[:i:i], s[i+1:]...)
		}
		return s, "byte-delete"
	case 3: // insert one byte
		i := rng.Intn(len(s) + 1)
		s = append(s[:i:i], append([]byte{rb()}, s[i:]...)...)
		return s, "byte-insert"
	case 4: // truncation
		return s[:rng.Intn(len(s)+1)], "truncate"
	case 5: // missing field
		i := rng.Intn(len(fields))
		f := append(append([]string{}, fields[:i]...), fields[i+1:]...)
		return []byte(strings.Join(f, " ")), "field-missing"
	case 6: // duplicated field
		i := rng.Intn(len(fields))
		f := append(append(append([]string{}, fields[:i+1]...), fields[i]), fields[i+1:]...)
		return []byte(strings.Join(f, " ")), "field-duplicated"
	case 7: // fields swapped
		i, j := rng.Intn(len(fields)), rng.Intn(len(fields))
		f := append([]string{}, fields...)
		f[i], f[j] = f[j], f[i]
		return []byte(strings.Join(f, " ")), "field-swapped"
	case 8: // separators: several blanks, leading / trailing blanks, other white space
		sep := []string{"  ", "   ", "\t", " \t", "", "\n"}[rng.Intn(6)]
		t := strings.Join(fields, sep)
		if rng.Bool() {
			t = " " + t
		}
		if rng.Bool() {
			t += []string{" ", "  ", " x", " 1 2 3", "\n"}[rng.Intn(5)]
		}
		return []byte(t), "separators"
	case 9: // overlong / malformed rank
		ranks := strings.Split(fields[0], "/")
		i := rng.Intn(len(ranks))
		ranks[i] = []string{"9", "0", "18", "81", "88", "44p", "ppppppppp", "PPPPPPPPP", "8p", "p8", "71", "17", "", "11111111",
			"111111111", "k7K", "4k4", "QQQQQQQQQ", "8/8", "//"}[rng.Intn(20)]
		f := append([]string{strings.Join(ranks, "/")}, fields[1:]...)
		return []byte(strings.Join(f, " ")), "rank-malformed"
	case 10: // rank count
		ranks := strings.Split(fields[0], "/")
		if rng.Bool() {
			ranks = append(ranks, "8")
		} else {
			ranks = ranks[:rng.Intn(len(ranks))+0]
		}
		f := append([]string{strings.Join(ranks, "/")}, fields[1:]...)
		return []byte(strings.Join(f, " ")), "rank-count"
	case 11, 12: // numbers
		f := append([]string{}, fields...)
		i := 4 + rng.Intn(2)
		if i < len(f) {
			f[i] = hugeNumbers[rng.Intn(len(hugeNumbers))]
			if rng.Chance(0.3) {
				f[i] = strconv.FormatUint(rng.U64(), 10) + strconv.FormatUint(rng.U64()>>uint(rng.Intn(64)), 10)
			}
		}
		return []byte(strings.Join(f, " ")), "numbers"
	case 13: // castling / en passant field
		f := append([]string{}, fields...)
		if rng.Bool() && len(f) > 2 {
			f[2] = []string{"KQkq", "qkQK", "KK", "-", "--", "K-q", "-K", "kq-", "A", "HAha", "", "KQkqKQkq"}[rng.Intn(12)]
		} else if len(f) > 3 {
			f[3] = []string{"a1", "h8", "e3", "e6", "a9", "i3", "a0", "`1", "h9", "e", "-", "--", "-e3", "e33", "E3", "a", "h"}[rng.Intn(17)]
		}
		return []byte(strings.Join(f, " ")), "castle-ep-field"
	case 14: // non-ASCII
		i := rng.Intn(len(s) + 1)
		ins := [][]byte{{0xc2, 0xa0}, {0xe2, 0x80, 0x83}, {0xff}, {0x80}, {0xc3, 0xa9}, {0xf0, 0x9f, 0x98, 0x80}, {0}}[rng.Intn(7)]
		s = append(s[:i:i], append(ins, s[i:]...)...)
		return s, "non-ascii"
	default: // two mutations
		t, _ := mutateFEN(rng, fen)
		if len(t) == 0 {
			return t, "double"
		}
		t2, _ := mutateFEN(rng, string(t))
		return t2, "double"
	}
}

func genC11str(rng *hx.Rng, n int, tier string, emit func(hx.Input)) {
	cnt := 0
	put := func(s []byte, kind string) {
		emit(c11strCase(rng, s, kind))
		cnt++
	}
	// fixed part: empty string, single bytes, every prefix of some canonical FENs
	put([]byte{}, "empty")
	for _, c := range []byte(" /8pKw-1a\x00\xff") {
		put([]byte{c}, "single-byte")
	}
	fixed := []string{StartPosFEN, "r3k2r/p1ppqpb1/bn2pnp1/3PN3/1p2P3/2N2Q1p/PPPBBPPP/R3K2R w KQkq - 0 1",
		"rnbqkbnr/ppp1pppp/8/8/3pP3/8/PPPP1PPP/RNBQKBNR b KQkq e3 0 3", "8/8/8/8/8/8/8/8 w - - 0 1",
		"k7/8/8/8/8/8/8/7K b - - 100 9223372036854775807"}
	for _, f := range fixed {
		for i := 0; i <= len(f); i++ {
			put([]byte(f[:i]), "prefix")
		}
	}
	for _, f := range c11RootsBoth() {
		put([]byte(f), "canonical")
	}
	// numeric overflow on both counters of a fixed FEN
	for _, h := range hugeNumbers {
		put([]byte("k7/8/8/8/8/8/8/7K w - - "+h+" 1"), "numbers")
		put([]byte("k7/8/8/8/8/8/8/7K w - - 0 "+h), "numbers")
	}
	for cnt < n {
		posgen.Stream(rng, 40, func(p posgen.Pos) {
			if cnt >= n {
				return
			}
			fen := p.B.FEN()
			switch x := rng.Intn(100); {
			case x < 6:
				put([]byte(fen), "canonical")
			case x < 14: // canonical text from the harness's own printer
				if p.B.FiftyCnt <= 100 {
					put([]byte(specFEN(p.B.VerifSnapshot())), "canonical-spec")
				}
			case x < 16: // all prefixes of this one
				for i := 0; i <= len(fen) && cnt < n; i += 1 + rng.Intn(2) {
					put([]byte(fen[:i]), "prefix")
				}
			case x < 19: // random bytes
				k := rng.Intn(80)
				s := make([]byte, k)
				for i := range s {
					if rng.Chance(0.7) {
						s[i] = interestingBytes[rng.Intn(len(interestingBytes))]
					} else {
						s[i] = byte(rng.Intn(256))
					}
				}
				put(s, "random-bytes")
			default:
				s, kind := mutateFEN(rng, fen)
				put(s, kind)
			}
		})
	}
}

// ---------------------------------------------------------------------------------------------
// c11uci

type c11MockSearch struct{}

func (c11MockSearch) Clear()       {}
func (c11MockSearch) ResizeTT(int) {}
func (c11MockSearch) Go(*board.Board, ...search.Option) (Score, move.Move, move.Move) {
	return 0, 0, 0
}

func uciErrClass(line string) int {
	switch {
	case strings.HasPrefix(line, "not enough arguments"):
		return 1
	case strings.HasPrefix(line, "invalid fen"):
		return 2
	case strings.HasPrefix(line, "invalid piece counts"):
		return 3
	}
	return 99
}

func runDriver(script string) (stdout string, stderr []string, b *board.Board) {
	var o, e bytes.Buffer
	d := uci.NewDriver(uci.WithInput(strings.NewReader(script)), uci.WithOutput(&o), uci.WithError(&e),
		uci.WithSearch(c11MockSearch{}))
	d.Run()
	for _, l := range strings.Split(e.String(), "\n") {
		if l != "" {
			stderr = append(stderr, l)
		}
	}
	return o.String(), stderr, d.VerifBoard()
}

func splitTokens(a hx.Args, from, to int) [][]string {
	// as coq/Model/FenStreams.v tokens_of: commands separated by 257; an empty segment has no
	// tokens, otherwise tokens are separated by 256
	segs := [][]int{{}}
	for i := from; i < to; i++ {
		v := a.Int(i)
		if v == 257 {
			segs = append(segs, []int{})
		} else {
			segs[len(segs)-1] = append(segs[len(segs)-1], v)
		}
	}
	var cmds [][]string
	for _, seg := range segs {
		toks := []string{}
		if len(seg) > 0 {
			cur := []byte{}
			for _, v := range seg {
				if v == 256 {
					toks = append(toks, string(cur))
					cur = []byte{}
				} else {
					cur = append(cur, byte(v))
				}
			}
			toks = append(toks, string(cur))
		}
		cmds = append(cmds, toks)
	}
	return cmds
}

func runC11uci(a hx.Args) string {
	n := a.Int(1)
	cmds := splitTokens(a, 2, 2+n)
	if len(cmds) != 2 {
		return "badinput"
	}
	// a panic inside the driver's goroutine cannot be recovered here: probe the parser first
	for _, c := range cmds {
		if len(c) >= 7 && c[0] == "fen" {
			_, _ = board.FromFEN(strings.Join(c[1:7], " "))
		}
	}
	lineA := "position " + strings.Join(cmds[0], " ") + "\n"
	lineB := "position " + strings.Join(cmds[1], " ") + "\n"
	_, errA, bA := runDriver(lineA)
	outB, errB, bB := runDriver(lineA + lineB + "fen\n")
	codeA, codeB := 0, 0
	if len(errA) > 0 {
		codeA = uciErrClass(errA[0])
	}
	if len(errB) > len(errA) {
		codeB = uciErrClass(errB[len(errA)])
	}
	text := strings.TrimSuffix(outB, "\n")
	return (&hx.Nums{}).Int(codeA, codeB).BoardOut(bA).BoardOut(bB).Int(len(text)).Bytes([]byte(text)).String()
}

// tokens must survive strings.Fields unchanged: no white space, and none of the lead bytes of
// the multi-byte encodings of Unicode white space
func cleanToken(t []byte) []byte {
	out := make([]byte, 0, len(t))
	for _, c := range t {
		switch c {
		case ' ', '\t', '\n', '\v', '\f', '\r', 0xc2, 0xe1, 0xe2, 0xe3:
			continue
		}
		out = append(out, c)
	}
	if len(out) == 0 {
		out = []byte{'-'}
	}
	return out
}

func encodeCmd(n *hx.Nums, toks []string) int {
	k := 0
	for i, t := range toks {
		if i > 0 {
			n.Int(256)
			k++
		}
		n.Bytes([]byte(t))
		k += len(t)
	}
	return k
}

var gateRejected = []string{
	"QQQQQQQQ/QQ6/8/8/8/8/7k/K7 w - - 0 1",   // 10 queens
	"RRRRRRRR/RRR5/8/8/8/8/7k/K7 w - - 0 1",  // 11 rooks
	"8/PPPPPPPP/P7/8/8/8/7k/K7 w - - 0 1",    // 9 pawns
	"8/PPPPPPPP/8/8/8/8/Q6k/KQ6 w - - 0 1",   // 8 pawns and 2 queens
	"8/8/8/8/8/8/7k/8 w - - 0 1",             // no white king
	"KK6/8/8/8/8/8/7k/8 w - - 0 1",           // two white kings
	"K7/8/8/8/8/8/8/8 w - - 0 1",             // no black king
	"K7/8/8/8/8/8/8/kk6 b - - 0 1",           // two black kings
	"8/8/8/8/8/8/8/8 w - - 0 1",              // empty
	"nnnnnnnn/nnn5/8/8/8/8/8/k6K b - - 0 1",  // 11 black knights
	"bbbbbbbb/b7/pp6/8/8/8/8/k6K b - - 0 1",  // 9 bishops + 2 pawns
}

func genC11uci(rng *hx.Rng, n int, tier string, emit func(hx.Input)) {
	cnt := 0
	type cmd struct {
		toks  []string
		kind  string
		valid bool // FEN() of a Valid position with clock <= 100
	}
	var pool []cmd
	fenCmd := func(fen string) []string { return append([]string{"fen"}, strings.Fields(fen)...) }
	for _, f := range c11RootsBoth() {
		b, err := board.FromFEN(f)
		if err == nil && posgen.Valid(b) {
			pool = append(pool, cmd{fenCmd(f), "valid-max-material", true})
		}
	}
	nvalid := len(pool)
	pool = append(pool, cmd{fenCmd("Q7/8P6/8/8/8/8/7k/K7 w - - 0 1"), "rank-overflow-accepted", false})
	for _, f := range gateRejected {
		pool = append(pool, cmd{fenCmd(f), "gate-rejected", false})
	}
	pool = append(pool, cmd{[]string{"startpos"}, "startpos", false}, cmd{[]string{}, "no-args", false},
		cmd{[]string{"fen"}, "fen-no-args", false}, cmd{[]string{"xyz", "1", "2"}, "unknown", false},
		cmd{[]string{"fen", "8/8/8/8/8/8/8/8", "w", "-", "-", "0"}, "fen-5-fields", false})
	emitPair := func(a, b cmd) {
		in := &hx.Nums{}
		body := &hx.Nums{}
		k := encodeCmd(body, a.toks)
		body.Int(257)
		k++
		k += encodeCmd(body, b.toks)
		in.B(b.valid).Int(k)
		s := in.String()
		if body.String() != "" {
			s += " " + body.String()
		}
		// self-check: the tokens come back from strings.Fields as they went in
		okTok := func(c cmd) bool {
			got := strings.Fields(strings.Join(c.toks, " "))
			if len(got) != len(c.toks) {
				return false
			}
			for i := range got {
				if got[i] != c.toks[i] || got[i] == "moves" || strings.ContainsAny(got[i], "\n\r") {
					return false
				}
			}
			return true
		}
		if !okTok(a) || !okTok(b) {
			return
		}
		emit(hx.Input{In: s, Desc: fmt.Sprintf("position %q then position %q", strings.Join(a.toks, " "), strings.Join(b.toks, " ")),
			Tags: []string{"A:" + a.kind, "B:" + b.kind}, NonTrivial: b.kind != "no-args" && b.kind != "unknown"})
		cnt++
	}
	// every hand-made second command after a few first commands
	for _, b := range pool {
		emitPair(pool[0], b)
		emitPair(cmd{[]string{"startpos"}, "startpos", false}, b)
		emitPair(pool[nvalid/2], b)
	}
	for cnt < n {
		posgen.Stream(rng, 40, func(p posgen.Pos) {
			if cnt >= n {
				return
			}
			fen := p.B.FEN()
			mk := func() cmd {
				switch x := rng.Intn(100); {
				case x < 35:
					if p.B.FiftyCnt <= 100 {
						c := cmd{fenCmd(fen), "valid-" + p.Kind, posgen.Valid(p.B)}
						if rng.Chance(0.2) {
							c.toks = append(c.toks, []string{"x", "1"}[rng.Intn(2)])
						}
						return c
					}
					return cmd{fenCmd(fen), "clock>100", false}
				case x < 50:
					return pool[rng.Intn(len(pool))]
				case x < 60: // material mutations of a valid FEN: extra kings / queens / pawns, kings removed
					f := strings.Fields(fen)
					from := []string{"1", "2", "k", "K", "p", "P", "3"}[rng.Intn(7)]
					to := []string{"Q", "QQ", "1", "1", "q", "K", "ppp"}[rng.Intn(7)]
					f[0] = strings.Replace(f[0], from, to, 1+rng.Intn(3))
					return cmd{append([]string{"fen"}, f...), "material-mutation", false}
				default:
					s, kind := mutateFEN(rng, fen)
					var toks []string
					for _, t := range bytes.Fields(s) {
						toks = append(toks, string(cleanToken(t)))
					}
					return cmd{append([]string{"fen"}, toks...), "mutated:" + kind, false}
				}
			}
			emitPair(mk(), mk())
		})
	}
}

// ---------------------------------------------------------------------------------------------
// c11seq: sequences of 3..5 position commands on ONE driver
//
//	n (commands separated by 257, tokens separated by 256)
//	-> board-out(fresh driver) then per command:
//	   code board-out(after the command in the sequence) fcode board-out(same command alone on a fresh driver)
//
// The driver is re-run on every prefix of the script (a deterministic function of the script), so
// that the error line and the board can be attributed to each command.
func init() {
	hx.Register(&hx.Stream{Name: "c11seq", Gen: genC11seq, Run: runC11seq, Shrink: shrinkC11Seq, Describe: describeC11Seq})
}

func uciSeqErrClass(line string) int {
	switch {
	case strings.HasPrefix(line, "invalid uci move"), strings.HasPrefix(line, "uci move not pseudo-legal"):
		return 4
	}
	return uciErrClass(line)
}

func runC11seq(a hx.Args) string {
	n := a.Int(0)
	cmds := splitTokens(a, 1, 1+n)
	// a panic inside the driver's goroutine cannot be recovered here: probe the parser first
	for _, c := range cmds {
		if len(c) >= 7 && c[0] == "fen" {
			_, _ = board.FromFEN(strings.Join(c[1:7], " "))
		}
	}
	_, _, b0 := runDriver("")
	out := (&hx.Nums{}).BoardOut(b0)
	script := ""
	prevErrs := 0
	for _, c := range cmds {
		line := "position " + strings.Join(c, " ") + "\n"
		script += line
		_, errs, b := runDriver(script)
		code := 0
		if len(errs) > prevErrs {
			code = uciSeqErrClass(errs[prevErrs])
		}
		prevErrs = len(errs)
		_, ferrs, fb := runDriver(line)
		fcode := 0
		if len(ferrs) > 0 {
			fcode = uciSeqErrClass(ferrs[0])
		}
		out.Int(code).BoardOut(b).Int(fcode).BoardOut(fb)
	}
	return out.String()
}

// seqCmd is one position command of a sequence together with what the generator knows about it.
type seqCmd struct {
	toks []string
	kind string
}

// legalLine plays k random legal moves from a copy of b and returns their UCI strings.
func legalLine(rng *hx.Rng, b *board.Board, k int) []string {
	c := board.VerifRestore(b.VerifSnapshot())
	var out []string
	for i := 0; i < k; i++ {
		ms := posgen.Legal(c)
		if len(ms) == 0 {
			break
		}
		m := ms[rng.Intn(len(ms))]
		out = append(out, m.String())
		c.MakeMove(m)
	}
	return out
}

// playLine applies UCI strings that are legal moves of b (as produced by legalLine) to a copy of b.
func playLine(b *board.Board, line []string) *board.Board {
	c := board.VerifRestore(b.VerifSnapshot())
	for _, s := range line {
		found := false
		for _, m := range posgen.Legal(c) {
			if m.String() == s {
				c.MakeMove(m)
				found = true
				break
			}
		}
		if !found {
			break
		}
	}
	return c
}

// rejectedVariant turns the six fields of a valid FEN into a FEN the parser rejects.
func rejectedVariant(rng *hx.Rng, fields []string) ([]string, string) {
	f := append([]string{}, fields...)
	switch rng.Intn(8) {
	case 0, 1:
		f[4] = strconv.Itoa(101 + rng.Intn(50))
		return f, "clock>100"
	case 2:
		f[5] = "0"
		return f, "fullmove-0"
	case 3:
		f[1] = "x"
		return f, "bad-stm"
	case 4:
		f[0] += "/8"
		return f, "nine-ranks"
	case 5:
		f[2] = "KQxq"
		return f, "bad-castling"
	case 6:
		f[3] = "i3"
		return f, "bad-ep"
	default:
		f[0] = strings.Replace(f[0], "/", "/9", 1)
		return f, "bad-rank"
	}
}

func seqInput(cmds []seqCmd, tags []string, nontrivial bool) (hx.Input, bool) {
	body := &hx.Nums{}
	k := 0
	var desc []string
	for i, c := range cmds {
		if i > 0 {
			body.Int(257)
			k++
		}
		k += encodeCmd(body, c.toks)
		desc = append(desc, fmt.Sprintf("position %s", strings.Join(c.toks, " ")))
		got := strings.Fields(strings.Join(c.toks, " "))
		if len(got) != len(c.toks) {
			return hx.Input{}, false
		}
		for j := range got {
			if got[j] != c.toks[j] || strings.ContainsAny(got[j], "\n\r") {
				return hx.Input{}, false
			}
		}
	}
	s := (&hx.Nums{}).Int(k).String()
	if body.String() != "" {
		s += " " + body.String()
	}
	return hx.Input{In: s, Desc: strings.Join(desc, " ; "), Tags: tags, NonTrivial: nontrivial}, true
}

func genC11seq(rng *hx.Rng, n int, tier string, emit func(hx.Input)) {
	cnt := 0
	withMoves := func(root []string, moves []string) []string {
		t := append([]string{}, root...)
		if len(moves) > 0 {
			t = append(append(t, "moves"), moves...)
		}
		return t
	}
	fenRoot := func(fen string) []string { return append([]string{"fen"}, strings.Fields(fen)...) }
	put := func(cmds []seqCmd, extra ...string) {
		tags := append([]string{}, extra...)
		repeatRejected := false
		for i, c := range cmds {
			tags = append(tags, c.kind)
			if i > 0 && strings.HasPrefix(c.kind, "repeat-rejected") {
				repeatRejected = true
			}
		}
		if in, ok := seqInput(cmds, tags, repeatRejected); ok {
			emit(in)
			cnt++
		}
	}
	start, _ := board.FromFEN(StartPosFEN)
	// deliberate part: X installed, BAD, BAD + m1, BAD + m1 m2 with m1, m2 legal in X
	xs := []string{StartPosFEN, "4k3/8/8/8/8/8/8/4K3 w - - 0 1",
		"r3k2r/p1ppqpb1/bn2pnp1/3PN3/1p2P3/2N2Q1p/PPPBBPPP/R3K2R w KQkq - 0 1"}
	bads := []string{"rnbqkbnr/pppppppp/8/8/8/8/PPPPPPPP/RNBQKBNR w KQkq - 101 60", gateRejected[0], gateRejected[5],
		"8/8/8/8/8/8/8/8/8 w - - 0 1", "4k3/8/8/8/8/8/8/4K3 x - - 0 1", "4k3/8/8/8/8/8/8/4K3 w - - 0 0"}
	for _, x := range xs {
		xb, err := board.FromFEN(x)
		if err != nil {
			continue
		}
		for _, bad := range bads {
			line := legalLine(rng, xb, 3)
			cmds := []seqCmd{{fenRoot(x), "accepted-fen"}, {fenRoot(bad), "rejected"}}
			for k := 1; k <= len(line) && k <= 3; k++ {
				cmds = append(cmds, seqCmd{withMoves(fenRoot(bad), line[:k]), "repeat-rejected-extended"})
			}
			put(cmds, "deliberate")
			// the same after startpos with moves, first rejected command already carries a move
			l2 := legalLine(rng, start, 2)
			cur := playLine(start, l2)
			ext := legalLine(rng, cur, 2)
			if len(ext) == 2 {
				put([]seqCmd{{withMoves([]string{"startpos"}, l2), "startpos-moves"},
					{withMoves(fenRoot(bad), ext[:1]), "rejected-moves"},
					{withMoves(fenRoot(bad), ext), "repeat-rejected-extended"},
					{withMoves(fenRoot(x), nil), "accepted-fen"}}, "deliberate")
			}
		}
	}
	for cnt < n {
		posgen.Stream(rng, 40, func(p posgen.Pos) {
			if cnt >= n || p.B.FiftyCnt > 100 {
				return
			}
			// generator-side view of the driver: current board, and the last `position fen` command
			cur := start
			var lastRoot []string // "fen" + six fields of the last position fen command
			var lastMoves []string
			lastRejected := false
			var lastBase *board.Board // root board of the last accepted fen command
			length := 3 + rng.Intn(3)
			var cmds []seqCmd
			newValid := func() (string, *board.Board) {
				if rng.Chance(0.6) {
					return p.B.FEN(), board.VerifRestore(p.B.VerifSnapshot())
				}
				for try := 0; try < 20; try++ {
					if q := posgen.Sparse(rng); q != nil {
						return q.B.FEN(), q.B
					}
				}
				return StartPosFEN, start
			}
			for len(cmds) < length {
				x := rng.Intn(100)
				switch {
				case x < 22: // new accepted fen, half of them with moves
					fen, b := newValid()
					var line []string
					if rng.Bool() {
						line = legalLine(rng, b, 1+rng.Intn(3))
					}
					cmds = append(cmds, seqCmd{withMoves(fenRoot(fen), line), "accepted-fen"})
					lastRoot, lastMoves, lastRejected, lastBase = fenRoot(fen), line, false, b
					cur = playLine(b, line)
				case x < 30: // startpos
					var line []string
					if rng.Bool() {
						line = legalLine(rng, start, 1+rng.Intn(4))
					}
					cmds = append(cmds, seqCmd{withMoves([]string{"startpos"}, line), "startpos"})
					cur = playLine(start, line)
				case x < 45: // new FEN rejected by the parser, with or without moves (legal in the current position)
					fen, _ := newValid()
					f, why := rejectedVariant(rng, strings.Fields(fen))
					var line []string
					if rng.Bool() {
						line = legalLine(rng, cur, 1+rng.Intn(2))
					}
					root := append([]string{"fen"}, f...)
					cmds = append(cmds, seqCmd{withMoves(root, line), "rejected-parser:" + why})
					lastRoot, lastMoves, lastRejected = root, line, true
				case x < 55: // new FEN rejected by the gate
					root := fenRoot(gateRejected[rng.Intn(len(gateRejected))])
					var line []string
					if rng.Bool() {
						line = legalLine(rng, cur, 1+rng.Intn(2))
					}
					cmds = append(cmds, seqCmd{withMoves(root, line), "rejected-gate"})
					lastRoot, lastMoves, lastRejected = root, line, true
				case x < 85: // the previous FEN again with an extended move list
					if lastRoot == nil {
						continue
					}
					if lastRejected {
						// extra moves legal in the position the driver holds now
						ext := legalLine(rng, cur, 1+rng.Intn(2))
						if len(ext) == 0 {
							continue
						}
						line := append(append([]string{}, lastMoves...), ext...)
						cmds = append(cmds, seqCmd{withMoves(lastRoot, line), "repeat-rejected-extended"})
						lastMoves = line
					} else {
						// the game goes on: extra moves legal after the moves already played
						ext := legalLine(rng, cur, 1+rng.Intn(2))
						if len(ext) == 0 {
							continue
						}
						line := append(append([]string{}, lastMoves...), ext...)
						cmds = append(cmds, seqCmd{withMoves(lastRoot, line), "repeat-accepted-extended"})
						lastMoves = line
						cur = playLine(lastBase, line)
					}
				case x < 92: // the previous FEN again with an unrelated, shorter or identical list
					if lastRoot == nil {
						continue
					}
					base := cur
					if !lastRejected {
						base = lastBase
					}
					var line []string
					switch rng.Intn(3) {
					case 0:
						line = legalLine(rng, base, rng.Intn(3))
					case 1:
						if len(lastMoves) > 0 {
							line = lastMoves[:rng.Intn(len(lastMoves))]
						}
					default:
						line = lastMoves
					}
					kind := "repeat-accepted-other-list"
					if lastRejected {
						kind = "repeat-rejected-other-list"
					} else {
						cur = playLine(lastBase, line)
					}
					cmds = append(cmds, seqCmd{withMoves(lastRoot, line), kind})
					lastMoves = line
				case x < 96: // a move list that stops at an illegal or malformed move
					fen, b := newValid()
					line := legalLine(rng, b, rng.Intn(3))
					good := len(line)
					line = append(line, []string{"e2e5", "a1a1", "zzzz", "e7e8k", "e2", "h9h8"}[rng.Intn(6)])
					line = append(line, legalLine(rng, b, 1)...)
					cmds = append(cmds, seqCmd{withMoves(fenRoot(fen), line), "accepted-fen-bad-move"})
					lastRoot, lastMoves, lastRejected, lastBase = fenRoot(fen), line, false, b
					cur = playLine(b, line[:good])
					// the bad token may by chance be a legal move: resynchronise through the same reader
					_ = cur
				default: // no position command at all / too few arguments
					cmds = append(cmds, []seqCmd{{[]string{}, "no-args"}, {[]string{"xyz", "1"}, "unknown"},
						{[]string{"fen", "8/8/8/8/8/8/8/8", "w", "-", "-", "0"}, "fen-5-fields"},
						{[]string{"startpos", "moves"}, "startpos-moves-empty"}}[rng.Intn(4)])
				}
			}
			put(cmds)
		})
	}
}

// ---------------------------------------------------------------------------------------------
// c11reuse: one Board value receives a sequence of texts
//
//	mode k (flag_i n_i bytes_i)*k -> per text: cls [board-out tlen text..] fcls [board-out]
//
// mode 0: board.ParseFEN(&b, text); 1: ParseFEN then b.ResetHash(); 2: epd.Parse(text+"; 1.0", &b, &res)
// - always into the SAME b (the tuner reads a whole file into one Board). The second half of each
// record is the same call on a fresh Board.
func init() {
	hx.Register(&hx.Stream{Name: "c11reuse", Gen: genC11reuse, Run: runC11reuse, Shrink: shrinkC11Reuse, Describe: describeC11Reuse})
}

func reuseParse(mode int, b *board.Board, text []byte) int {
	if mode == 2 {
		var res float64
		if err := epd.Parse(append(append([]byte{}, text...), []byte("; 1.0")...), b, &res); err != nil {
			return 1
		}
		return 0
	}
	if err := board.ParseFEN(b, text); err != nil {
		return fenErrClass(err)
	}
	if mode == 1 {
		b.ResetHash()
	}
	return 0
}

func runC11reuse(a hx.Args) string {
	mode, k := a.Int(0), a.Int(1)
	out := &hx.Nums{}
	var reused board.Board
	i := 2
	for j := 0; j < k; j++ {
		n := a.Int(i + 1)
		text := a.Bytes(i+2, i+2+n)
		i += 2 + n
		cls := reuseParse(mode, &reused, text)
		out.Int(cls)
		if cls == 0 {
			t := reused.FEN()
			out.BoardOut(&reused).Int(len(t)).Bytes([]byte(t))
		}
		var fresh board.Board
		fcls := reuseParse(mode, &fresh, text)
		out.Int(fcls)
		if fcls == 0 {
			out.BoardOut(&fresh)
		}
	}
	return out.String()
}

type reuseItem struct {
	text      []byte
	canonical bool
	kind      string
}

func genC11reuse(rng *hx.Rng, n int, tier string, emit func(hx.Input)) {
	cnt := 0
	put := func(mode int, items []reuseItem, extra ...string) {
		in := (&hx.Nums{}).Int(mode, len(items))
		tags := append([]string{fmt.Sprintf("mode%d", mode)}, extra...)
		var desc []string
		epThenNone := false
		hadEp := false
		for _, it := range items {
			in.B(it.canonical).Int(len(it.text)).Bytes(it.text)
			tags = append(tags, it.kind)
			desc = append(desc, fmt.Sprintf("%q", it.text))
			f := strings.Fields(string(it.text))
			if len(f) == 6 && f[3] != "-" {
				hadEp = true
			} else if len(f) == 6 && hadEp {
				epThenNone = true
			}
		}
		if epThenNone {
			tags = append(tags, "ep-then-none")
		}
		emit(hx.Input{In: in.String(), Desc: fmt.Sprintf("mode %d reuse one Board for %s", mode, strings.Join(desc, " then ")),
			Tags: tags, NonTrivial: epThenNone})
		cnt++
	}
	canon := func(f string) reuseItem { return reuseItem{[]byte(f), true, "canonical"} }
	withEp := []string{"rnbqkbnr/ppp1pppp/8/8/3pP3/8/PPPP1PPP/RNBQKBNR b KQkq e3 0 3", "4k3/8/8/2pP4/8/8/8/4K3 w - c6 0 2",
		"8/8/8/8/k2pP2R/8/8/4K3 b - e3 0 1", "2r3k1/1q1nbppp/r3p3/3pP3/pPpP4/P1Q2N2/2RN1PPP/2R4K b - b3 0 23"}
	after := []string{StartPosFEN, "4k3/8/8/4P3/8/8/8/4K3 w - - 0 1", "8/8/8/8/8/8/8/8 w - - 0 1",
		"4k3/8/8/8/3p4/8/8/4K3 b - - 57 99", "r3k2r/8/8/8/8/8/8/R3K2R w KQkq - 0 1"}
	bad := []string{"", "4k3/8/8", "4k3/8/8/8/8/8/8/4K3 w - - 101 1", "4k3/8/8/8/8/8/8/4K3 w KQ", "4k3/8/8/8/8/8/8/4K3 b - e"}
	for mode := 0; mode < 3; mode++ {
		for _, e := range withEp {
			for _, f := range after {
				put(mode, []reuseItem{canon(e), canon(f)}, "deliberate")
				put(mode, []reuseItem{canon(f), canon(e), {[]byte(bad[rng.Intn(len(bad))]), false, "failing"}, canon(f)}, "deliberate")
			}
		}
	}
	var epPool []string
	for cnt < n {
		posgen.Stream(rng, 40, func(p posgen.Pos) {
			if cnt >= n {
				return
			}
			if p.B.EnPassant != 0 && p.B.FiftyCnt <= 100 {
				epPool = append(epPool, specFEN(p.B.VerifSnapshot()))
				if len(epPool) > 64 {
					epPool = epPool[1:]
				}
			}
			k := 2 + rng.Intn(3)
			var items []reuseItem
			for len(items) < k {
				switch x := rng.Intn(100); {
				case x < 25 && len(epPool) > 0:
					items = append(items, canon(epPool[rng.Intn(len(epPool))]))
				case x < 45:
					if p.B.FiftyCnt <= 100 {
						items = append(items, canon(specFEN(p.B.VerifSnapshot())))
					}
				case x < 60:
					if q := posgen.Sparse(rng); q != nil {
						items = append(items, canon(specFEN(q.B.VerifSnapshot())))
					}
				case x < 70:
					items = append(items, canon(after[rng.Intn(len(after))]))
				case x < 85:
					s, kind := mutateFEN(rng, p.B.FEN())
					items = append(items, reuseItem{s, false, "mutated:" + kind})
				default:
					items = append(items, reuseItem{[]byte(bad[rng.Intn(len(bad))]), false, "failing"})
				}
			}
			put(rng.Intn(3), items)
		})
	}
}
